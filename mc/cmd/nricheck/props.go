package main

// registerMore adds the property table entries beyond C01-C05.
func registerMore(m map[string]propSpec) {
}
