package main

// registerMore adds the property table entries beyond C01-C05.
func registerMore(m map[string]propSpec) {
	m["C13"] = propSpec{Level: "model_checking", Engines: []engine{{Harness: "gen", Overlay: "base", Shards: -1}}}
	// C01 additionally runs the concurrent-callers scenarios
	c01 := m["C01"]
	c01.Engines = append(c01.Engines, engine{Harness: "adapt", Overlay: "base", Name: "sched", Shards: 8})
	m["C01"] = c01
	m["C10"] = propSpec{Level: "model_checking", Engines: []engine{
		{Harness: "mux", Overlay: "mux", Name: "mux", Shards: -1, MemMB: 4096, ThoroughTimeoutS: 4 * 3600},
		{Harness: "muxreal", Overlay: "base", Name: "real"},
	}}
	m["C11"] = propSpec{Level: "model_checking", Engines: []engine{{Harness: "mux", Overlay: "mux", Name: "mux", Shards: -1, MemMB: 4096, ThoroughTimeoutS: 4 * 3600}}}
	m["C09"] = propSpec{Level: "model_checking", Engines: []engine{{Harness: "syncx", Overlay: "base", Name: "seam"}, {Harness: "syncx", Overlay: "base", Name: "full"}, {Harness: "procs", Overlay: "base", Name: "presync", Shards: 2}}}
	m["C07"] = propSpec{Level: "fault_enumeration", Engines: []engine{
		{Harness: "faults", Overlay: "base", Name: "answers"},
		{Harness: "faults", Overlay: "base", Name: "cuts", Shards: 2},
		{Harness: "faults", Overlay: "base", Name: "cutsched", Shards: 8},
		{Harness: "faults", Overlay: "base", Name: "repeat", Experiment: true},
		{Harness: "regrace", Overlay: "base", Name: "regrace", Race: true},
		{Harness: "reg", Overlay: "base", Name: "hist", Shards: 4},
	}}
	m["C08"] = propSpec{Level: "model_checking", Engines: []engine{
		{Harness: "reg", Overlay: "base", Name: "sched", Shards: 8},
		{Harness: "reg", Overlay: "base", Name: "race", Race: true},
		{Harness: "reg", Overlay: "base", Name: "hold", Shards: 3},
	}}
	m["C12"] = propSpec{Level: "model_checking", Engines: []engine{{Harness: "codec", Overlay: "base", Shards: 8}}}
	m["C14"] = propSpec{Level: "model_checking", Engines: []engine{{Harness: "conv", Overlay: "base"}}}
	m["C15"] = propSpec{Level: "model_checking", Engines: []engine{{Harness: "stubsub", Overlay: "base", Shards: -1}}}
	m["C19"] = propSpec{Level: "model_checking", Engines: []engine{
		{Harness: "adapt", Overlay: "base", Name: "sched", Shards: 8},
		{Harness: "adapt", Overlay: "base", Name: "race", Race: true},
		{Harness: "unsol", Overlay: "base", Name: "content"},
		{Harness: "unsol", Overlay: "base", Name: "abandon", Shards: 3},
		{Harness: "unsol", Overlay: "base", Name: "restart", Shards: 2},
		{Harness: "unsol", Overlay: "base", Name: "phases", Shards: 3},
		{Harness: "unsol", Overlay: "base", Name: "queued", Shards: 2},
	}}
	m["C17"] = propSpec{Level: "fault_enumeration", Engines: []engine{
		{Harness: "reg", Overlay: "base", Name: "names", Shards: 8},
		{Harness: "reg", Overlay: "base", Name: "masks", Shards: -1},
		{Harness: "reg", Overlay: "base", Name: "stalls", Shards: 12},
		{Harness: "reg", Overlay: "base", Name: "socket"},
	}}
	m["C16"] = propSpec{Level: "fault_enumeration", Engines: []engine{
		{Harness: "stublife", Overlay: "base", Name: "cuts", Shards: 8},
		{Harness: "stublife", Overlay: "base", Name: "histories", Shards: 8},
		{Harness: "stublife", Overlay: "base", Name: "slowcfg", Shards: 4},
	}}
	m["C18"] = propSpec{Level: "fault_enumeration", Engines: []engine{{Harness: "procs", Overlay: "base", Shards: 4}}}
	m["C20"] = propSpec{Level: "model_checking", Engines: []engine{{Harness: "samples", Overlay: "base"}}}
	m["C06"] = propSpec{Level: "model_checking", Engines: []engine{
		{Harness: "adapt", Overlay: "base", Name: "masks"},
		{Harness: "adapt", Overlay: "base", Name: "order"},
		{Harness: "reg", Overlay: "base", Name: "hist", Shards: 4},
		{Harness: "adapt", Overlay: "base", Name: "sched", Shards: 8},
		{Harness: "adapt", Overlay: "base", Name: "race", Race: true},
	}}
}
