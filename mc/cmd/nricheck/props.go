package main

// registerMore adds the property table entries beyond C01-C05.
func registerMore(m map[string]propSpec) {
	m["C13"] = propSpec{Level: "model_checking", Engines: []engine{{Harness: "gen", Overlay: "base", Shards: -1}}}
}
