// nricheck: runner of the verification checks.
//
//	nricheck <property> --tier quick|thorough
//	nricheck replay <path>
//
// instrument (overlay from /repo's working tree) -> build harness -> run
// worker processes -> aggregate -> evidence + verdict.
// exit 0: property held on everything explored (or only known findings)
// exit 1: violation (prints "VIOLATION property=<id> replay=<path>")
// exit 2: machinery error
package main

import (
	"bufio"
	"bytes"
	"crypto/sha1"
	"encoding/json"
	"fmt"
	"io"
	"os"
	"os/exec"
	"path/filepath"
	"regexp"
	"runtime"
	"sort"
	"strconv"
	"strings"
	"sync"
	"time"

	"nriverif/lib/rep"
)

// verifRoot is /verif unless VERIF_ROOT is set (background runs from a snapshot of the tree).
var (
	verifRoot = func() string {
		if r := os.Getenv("VERIF_ROOT"); r != "" {
			return r
		}
		return "/verif"
	}()
	mcRoot = filepath.Join(verifRoot, "mc")
)

func repoRoot() string {
	if r := os.Getenv("VERIF_REPO"); r != "" {
		return r
	}
	return "/repo"
}

// engine is one harness invocation family of a property.
type engine struct {
	Harness          string   // directory under mc/harness
	Overlay          string   // base | mux
	Name             string   // --engine value (scenario family), "" = all
	Shards           int      // number of worker processes (0 = 1)
	Args             []string // extra args
	Thorough         bool     // only in thorough tier
	QuickOnly        bool
	Experiment       bool // runs only when named explicitly with --engine (never part of a check)
	Race             bool // build with the race detector, turn its reports into findings (free-running engines)
	MemMB            int  // ulimit -v for the worker in MiB (0 = default 12288)
	TimeoutS         int
	ThoroughTimeoutS int // worker timeout of the thorough tier when larger than the default hour
}

type propSpec struct {
	Level   string // evidence level
	Engines []engine
}

func props() map[string]propSpec {
	m := map[string]propSpec{}
	for _, id := range []string{"C01", "C02", "C03", "C04", "C05"} {
		m[id] = propSpec{Level: "model_checking", Engines: []engine{{Harness: "merge", Overlay: "base"}}}
	}
	registerMore(m)
	return m
}

func env() []string {
	e := os.Environ()
	e = append(e, "VERIF_REPO="+repoRoot())
	e = append(e, "GOFLAGS=-mod=mod", "GOPROXY=off", "GOSUMDB=off", "GOTOOLCHAIN=local", "CGO_ENABLED=0")
	return e
}

func die(format string, a ...any) {
	fmt.Fprintf(os.Stderr, "nricheck: machinery error: "+format+"\n", a...)
	os.Exit(2)
}

func run(dir string, name string, args ...string) (string, error) {
	cmd := exec.Command(name, args...)
	cmd.Dir = dir
	cmd.Env = env()
	out, err := cmd.CombinedOutput()
	return string(out), err
}

type known struct {
	Status   string `json:"status"` // known | fixed
	Property string `json:"property"`
	Pattern  string `json:"pattern"` // glob over the finding signature ('*' wildcard)
	What     string `json:"what"`
	Commit   string `json:"commit,omitempty"`
}

func loadKnown() []known {
	var ks []known
	f, err := os.Open(filepath.Join(verifRoot, "KNOWN_FINDINGS"))
	if err != nil {
		return nil
	}
	defer f.Close()
	sc := bufio.NewScanner(f)
	sc.Buffer(make([]byte, 1<<20), 1<<20)
	re := regexp.MustCompile(`^known:\s+property=(\S+)\s+signature=(\S+)\s+(.*)$`)
	for sc.Scan() {
		line := strings.TrimSpace(sc.Text())
		if line == "" || strings.HasPrefix(line, "#") || strings.HasPrefix(line, "fixed:") {
			continue // fixed entries suppress nothing
		}
		m := re.FindStringSubmatch(line)
		if m == nil {
			die("KNOWN_FINDINGS: cannot parse line %q", line)
		}
		ks = append(ks, known{Status: "known", Property: m[1], Pattern: m[2], What: m[3]})
	}
	return ks
}

func globMatch(pat, s string) bool {
	re := "^" + strings.ReplaceAll(regexp.QuoteMeta(pat), `\*`, ".*") + "$"
	ok, _ := regexp.MatchString(re, s)
	return ok
}

func main() {
	if len(os.Args) < 2 {
		die("usage: nricheck <property> --tier quick|thorough | nricheck replay <path>")
	}
	if os.Args[1] == "replay" {
		if len(os.Args) < 3 {
			die("usage: nricheck replay <path>")
		}
		os.Exit(doReplay(os.Args[2]))
	}
	prop := os.Args[1]
	tier := os.Getenv("VERIF_TIER")
	if tier == "" {
		tier = "quick"
	}
	only := ""
	for i := 2; i < len(os.Args); i++ {
		switch os.Args[i] {
		case "--tier":
			i++
			tier = os.Args[i]
		case "--engine":
			i++
			only = os.Args[i]
		}
	}
	spec, ok := props()[prop]
	if !ok {
		die("unknown property %s", prop)
	}
	os.Exit(check(prop, tier, spec, only))
}

func fileExists(p string) bool { _, err := os.Stat(p); return err == nil }

type builder struct {
	tier     string
	scratch  string
	overlays map[string]string // kind -> overlay.json
	instr    map[string]json.RawMessage
	bins     map[string]string
	mu       sync.Mutex
}

func newBuilder() *builder {
	base := os.Getenv("VERIF_SCRATCH")
	if base == "" {
		base = "/var/tmp"
	}
	d, err := os.MkdirTemp(base, "nricheck-")
	if err != nil {
		die("%v", err)
	}
	return &builder{scratch: d, overlays: map[string]string{}, instr: map[string]json.RawMessage{}, bins: map[string]string{}}
}

func (b *builder) cleanup() { os.RemoveAll(b.scratch) }

func (b *builder) overlay(kind string) string {
	if o, ok := b.overlays[kind]; ok {
		return o
	}
	out := filepath.Join(b.scratch, "ov-"+kind)
	instr := filepath.Join(verifRoot, "bin", "instr")
	if _, err := os.Stat(instr); err != nil {
		if o, err := run(filepath.Join(verifRoot, "instr"), "go", "build", "-o", instr, "."); err != nil {
			die("building instr: %v\n%s", err, o)
		}
	}
	o, err := run(mcRoot, instr, "-repo", repoRoot(), "-verif", mcRoot, "-out", out, "-kind", kind)
	if err != nil {
		die("instrumenter failed (kind %s): %v\n%s", kind, err, o)
	}
	b.instr[kind] = json.RawMessage(o)
	b.overlays[kind] = filepath.Join(out, "overlay.json")
	return b.overlays[kind]
}

func (b *builder) bin(harness, kind string, race bool) string {
	// harnesses with generated sources: (re)generate for the tier before building
	if gen := filepath.Join(mcRoot, "harness", harness, "gen.py"); fileExists(gen) {
		if o, err := run(filepath.Join(mcRoot, "harness", harness), "python3", "gen.py", b.tier, "zz_gen_types.go"); err != nil {
			die("generating sources of harness %s: %v\n%s", harness, err, o)
		}
	}
	key := harness + "/" + kind
	if race {
		key += "/race"
	}
	if p, ok := b.bins[key]; ok {
		return p
	}
	ov := b.overlay(kind)
	p := filepath.Join(b.scratch, strings.ReplaceAll(key, "/", "-"))
	args := []string{"build", "-overlay", ov, "-o", p}
	if rr := repoRoot(); rr != "/repo" {
		// build against another checkout of the repository (scratch worktree): same module
		// file with the replace directive pointing there
		mf := filepath.Join(b.scratch, "alt.mod")
		gm, err := os.ReadFile(filepath.Join(mcRoot, "go.mod"))
		if err != nil {
			die("%v", err)
		}
		os.WriteFile(mf, []byte(strings.ReplaceAll(string(gm), "=> /repo", "=> "+rr)), 0o644)
		if gs, err := os.ReadFile(filepath.Join(mcRoot, "go.sum")); err == nil {
			os.WriteFile(filepath.Join(b.scratch, "alt.sum"), gs, 0o644)
		}
		args = append(args, "-modfile="+mf)
	}
	if race {
		args = append(args, "-race")
	}
	args = append(args, "./harness/"+harness)
	cmd := exec.Command("go", args...)
	cmd.Dir = mcRoot
	e := env()
	if race {
		e = append(e, "CGO_ENABLED=1")
	}
	cmd.Env = e
	if o, err := cmd.CombinedOutput(); err != nil {
		// a tree that does not compile is not a verdict about the property
		die("building harness %s (overlay %s): %v\n%s", harness, kind, err, o)
	}
	b.bins[key] = p
	return p
}

type workerOut struct {
	res *rep.Result
	err string
}

func runWorker(bin string, prop, tier string, e engine, shard, nshards int, outDir string) workerOut {
	out := filepath.Join(outDir, fmt.Sprintf("%s-%s-%d.json", e.Harness, e.Name, shard))
	args := []string{"--prop", prop, "--tier", tier, "--out", out, "--shard", strconv.Itoa(shard), "--nshards", strconv.Itoa(nshards)}
	if e.Name != "" {
		args = append(args, "--engine", e.Name)
	}
	args = append(args, e.Args...)
	mem := e.MemMB
	if mem == 0 {
		mem = 12288
	}
	to := e.TimeoutS
	if to == 0 {
		to = 3600
		if tier == "quick" {
			to = 1500
		}
	}
	if tier == "thorough" && e.ThoroughTimeoutS > to {
		to = e.ThoroughTimeoutS
	}
	sh := fmt.Sprintf("ulimit -v %d; exec timeout -k 10 %d %q \"$@\"", mem*1024, to, bin)
	if e.Race {
		sh = fmt.Sprintf("exec timeout -k 10 %d %q \"$@\"", to, bin) // the race detector reserves terabytes of address space
	}
	cmd := exec.Command("bash", append([]string{"-c", sh, "worker"}, args...)...)
	cmd.Dir = mcRoot
	// everything a worker creates (socket directories, plugin directories, probe reports) lives under
	// the run's scratch directory and goes away with it, also when a worker is killed
	wscratch := filepath.Join(filepath.Dir(outDir), "w")
	os.MkdirAll(wscratch, 0o755)
	cmd.Env = append(env(), "VSCHED_JOURNAL="+out+".journal", "VERIF_SCRATCH="+wscratch)
	if e.Race {
		cmd.Env = append(cmd.Env, "GORACE=log_path="+out+".race exitcode=0 halt_on_error=0")
	}
	logf, _ := os.Create(out + ".log")
	cmd.Stdout = logf
	cmd.Stderr = logf
	err := cmd.Run()
	logf.Close()
	b, rerr := os.ReadFile(out)
	if rerr != nil {
		lg, _ := os.ReadFile(out + ".log")
		tail := string(lg)
		// A panic in a goroutine of the code under test (not recoverable by the worker) kills the
		// worker. If the panicking goroutine is inside nri's own packages, that is a finding.
		if i := strings.Index(tail, "\npanic: "); i >= 0 || strings.HasPrefix(tail, "panic: ") {
			if i < 0 {
				i = 0
			}
			pan := tail[i:]
			// the panic message, a blank line, then the stack of the panicking goroutine
			stack := pan
			if j := strings.Index(pan, "\n\ngoroutine "); j > 0 {
				rest := pan[j+2:]
				if k := strings.Index(rest, "\n\n"); k > 0 {
					rest = rest[:k]
				}
				stack = pan[:j+2] + rest
			}
			first := ""
			for _, ln := range strings.Split(stack, "\n") {
				if strings.HasPrefix(ln, "github.com/containerd/nri/pkg/") && !strings.Contains(ln, "/zzverif/") {
					first = ln
					break
				}
			}
			if first != "" {
				fn := first
				if k := strings.Index(fn, "("); k > 0 {
					fn = fn[:k]
				}
				r := &rep.Result{Property: prop, Engine: e.Harness + "/" + e.Name}
				r.Evaluations, r.States, r.Transitions, r.Distinct = 1, 1, 1, 2
				var jr any
				if j, jerr := os.ReadFile(out + ".journal"); jerr == nil {
					json.Unmarshal(j, &jr)
				}
				if len(stack) > 3000 {
					stack = stack[:3000]
				}
				r.Add(fmt.Sprintf("%s|%s|process-panic|%s", prop, e.Harness, strings.TrimPrefix(fn, "github.com/containerd/nri/")),
					"the worker process was killed by a panic in a goroutine of the code under test:\n"+stack, jr)
				return workerOut{res: r}
			}
		}
		// The Go runtime's "out of memory" cannot be recovered inside the worker. If the worker
		// journalled the execution it was running, the crash is a finding about that execution.
		if j, jerr := os.ReadFile(out + ".journal"); jerr == nil && (strings.Contains(tail, "fatal error: out of memory") || strings.Contains(tail, "fatal error: runtime: out of memory")) {
			var jr map[string]any
			if json.Unmarshal(j, &jr) == nil {
				sc, _ := jr["scenario"].(string)
				r := &rep.Result{Property: prop, Engine: e.Harness + "/" + e.Name}
				r.Evaluations, r.States, r.Transitions, r.Distinct = 1, 1, 1, 2
				r.Add(fmt.Sprintf("%s|%s|%s|process-crash", prop, e.Harness, sc),
					"the worker process died with the Go runtime's unrecoverable 'out of memory' while running this execution (a huge allocation made by the code under test)", jr)
				return workerOut{res: r}
			}
		}
		if len(tail) > 6000 {
			tail = tail[len(tail)-6000:]
		}
		return workerOut{err: fmt.Sprintf("worker %s/%s shard %d produced no result (%v)\n%s", e.Harness, e.Name, shard, err, tail)}
	}
	var r rep.Result
	if jerr := json.Unmarshal(b, &r); jerr != nil {
		return workerOut{err: fmt.Sprintf("worker result unreadable: %v", jerr)}
	}
	if r.MachineryErr != "" {
		return workerOut{err: r.MachineryErr}
	}
	if err != nil {
		lg, _ := os.ReadFile(out + ".log")
		tail := string(lg)
		if len(tail) > 6000 {
			tail = tail[len(tail)-6000:]
		}
		return workerOut{err: fmt.Sprintf("worker %s/%s shard %d exited with %v\n%s", e.Harness, e.Name, shard, err, tail)}
	}
	if e.Race {
		addRaceFindings(prop, e, out, &r)
	}
	return workerOut{res: &r}
}

// addRaceFindings turns the race detector's reports that involve nri's own packages into findings.
func addRaceFindings(prop string, e engine, out string, r *rep.Result) {
	files, _ := filepath.Glob(out + ".race.*")
	n := 0
	for _, f := range files {
		b, err := os.ReadFile(f)
		if err != nil {
			continue
		}
		for _, blk := range strings.Split(string(b), "==================") {
			if !strings.Contains(blk, "WARNING: DATA RACE") {
				continue
			}
			fn := ""
			for _, ln := range strings.Split(blk, "\n") {
				ln = strings.TrimSpace(ln)
				// only the runtime adaptation's own state is in scope of the properties these engines
				// support (lock discipline of Adaptation / plugin objects)
				if strings.HasPrefix(ln, "github.com/containerd/nri/pkg/adaptation.") {
					fn = ln
					if k := strings.Index(fn, "()"); k > 0 {
						fn = fn[:k]
					}
					break
				}
			}
			if fn == "" {
				continue // a race entirely outside nri (harness, third party): not a verdict about the property
			}
			n++
			if len(blk) > 3500 {
				blk = blk[:3500]
			}
			r.Add(fmt.Sprintf("%s|data-race|%s", prop, strings.TrimPrefix(fn, "github.com/containerd/nri/")),
				"the race detector reports unsynchronised accesses in nri's own code during the free-running pass:\n"+blk, map[string]any{"engine": e.Name, "free_running": true})
		}
	}
	if r.Bounds == nil {
		r.Bounds = map[string]any{}
	}
	r.Bounds["race_reports_in_nri_code"] = n
}

func check(prop, tier string, spec propSpec, only string) int {
	start := time.Now()
	seed, _ := strconv.Atoi(os.Getenv("VERIF_SEED"))
	b := newBuilder()
	b.tier = tier
	defer b.cleanup()
	outDir := filepath.Join(b.scratch, "out")
	os.MkdirAll(outDir, 0o755)

	var results []*rep.Result
	var merr []string
	for _, e := range spec.Engines {
		if e.Thorough && tier != "thorough" || e.QuickOnly && tier != "quick" {
			continue
		}
		if only != "" && e.Name != only && e.Harness != only {
			continue
		}
		if e.Experiment && only != e.Name {
			continue
		}
		race := e.Race
		bin := b.bin(e.Harness, e.Overlay, race)
		n := e.Shards
		if n == 0 {
			n = 1
		}
		if n < 0 {
			n = runtime.NumCPU()
		}
		outs := make([]workerOut, n)
		var wg sync.WaitGroup
		for s := 0; s < n; s++ {
			wg.Add(1)
			go func(s int) {
				defer wg.Done()
				outs[s] = runWorker(bin, prop, tier, e, s, n, outDir)
			}(s)
		}
		wg.Wait()
		for _, o := range outs {
			if o.err != "" {
				merr = append(merr, o.err)
			} else {
				results = append(results, o.res)
			}
		}
	}
	if len(merr) > 0 {
		for _, m := range merr {
			fmt.Fprintln(os.Stderr, "MACHINERY ERROR:", m)
		}
		// an engine that could not do its work decides nothing; violations found by the engines that
		// did run stand (exit 1), otherwise the run as a whole is broken (exit 2)
		if len(results) > 0 {
			for _, r := range results {
				r.Exhaustive = false
				r.Notes = append(r.Notes, fmt.Sprintf("%d worker(s) of this run ended with a machinery error", len(merr)))
			}
			if rc := aggregate(prop, tier, seed, spec, results, b, time.Since(start)); rc == 1 {
				return 1
			}
		}
		return 2
	}
	if len(results) == 0 {
		die("no engine ran for %s (tier %s)", prop, tier)
	}
	return aggregate(prop, tier, seed, spec, results, b, time.Since(start))
}

func aggregate(prop, tier string, seed int, spec propSpec, results []*rep.Result, b *builder, wall time.Duration) int {
	ks := loadKnown()
	cov := map[string]any{}
	var evals, states, trans, distinct int64
	exhaustive := true
	var samples []any
	var rules, notes []string
	assumptions := []string{"the harness drives real nri code rebuilt from /repo's working tree with the verification overlay (instrumented copies, export files); see coverage.instrumentation"}
	engines := []any{}
	outcomes := map[string]int{}
	type vf struct {
		rep.Finding
		engine string
	}
	var all []vf
	cut := 0
	for _, r := range results {
		evals += r.Evaluations
		states += r.States
		trans += r.Transitions
		distinct += r.Distinct
		if !r.Supporting {
			exhaustive = exhaustive && r.Exhaustive
		}
		for _, s := range r.Samples {
			if len(samples) < 6 {
				samples = append(samples, s)
			}
		}
		if r.Rule != "" && !contains(rules, r.Engine+": "+r.Rule) {
			rules = append(rules, r.Engine+": "+r.Rule)
		}
		for _, n := range r.Notes {
			if !contains(notes, n) {
				notes = append(notes, n)
			}
		}
		for _, a := range r.Assumptions {
			if !contains(assumptions, a) {
				assumptions = append(assumptions, a)
			}
		}
		for k, v := range r.Outcomes {
			outcomes[r.Engine+":"+k] += v
		}
		engines = append(engines, map[string]any{"engine": r.Engine, "evaluations": r.Evaluations, "states": r.States,
			"transitions": r.Transitions, "distinct": r.Distinct, "exhaustive": r.Exhaustive, "supporting_only": r.Supporting, "bounds": r.Bounds, "wall_s": r.WallS,
			"findings": len(r.Findings)})
		for _, f := range r.Findings {
			all = append(all, vf{f, r.Engine})
		}
		cut += r.FindingsCut
	}
	// classify findings
	nviol := 0
	knownHit := map[string]int{}
	var violLines []string
	sort.SliceStable(all, func(i, j int) bool { return all[i].Signature < all[j].Signature })
	seenSig := map[string]bool{}
	os.MkdirAll(filepath.Join(verifRoot, "replays", prop), 0o755)
	for _, f := range all {
		matched := ""
		for _, k := range ks {
			if k.Status == "known" && k.Property == prop && globMatch(k.Pattern, f.Signature) {
				matched = k.Pattern + " :: " + k.What
				break
			}
		}
		if matched != "" {
			knownHit[matched]++
			continue
		}
		nviol++
		if seenSig[f.Signature] {
			continue
		}
		seenSig[f.Signature] = true
		payload, _ := json.MarshalIndent(map[string]any{"property": prop, "engine": f.engine, "signature": f.Signature, "message": f.Message, "replay": f.Replay}, "", " ")
		h := sha1.Sum(payload)
		p := filepath.Join(verifRoot, "replays", prop, fmt.Sprintf("%x.json", h[:6]))
		os.WriteFile(p, payload, 0o644)
		fmt.Printf("finding [%s] %s\n", f.Signature, firstLines(f.Message, 6))
		violLines = append(violLines, fmt.Sprintf("VIOLATION property=%s replay=%s", prop, p))
	}
	var kh []string
	for k, n := range knownHit {
		kh = append(kh, fmt.Sprintf("%s (%d executions)", k, n))
	}
	sort.Strings(kh)
	for _, k := range kh {
		fmt.Printf("KNOWN-FINDING: property=%s %s\n", prop, k)
	}

	cov["evaluations"] = evals
	cov["distinct_nontrivial"] = distinct
	cov["rule"] = strings.Join(rules, " || ")
	if len(samples) == 0 {
		samples = append(samples, "no sample recorded")
	}
	cov["samples"] = samples
	cov["exhaustive"] = exhaustive
	cov["engines"] = engines
	cov["outcomes"] = outcomes
	cov["instrumentation"] = b.instr
	cov["known_findings_hit"] = kh
	cov["findings_beyond_cap"] = cut
	if len(notes) > 0 {
		cov["notes"] = notes
	}
	if spec.Level == "model_checking" {
		cov["states"] = states
		cov["transitions"] = trans
		cov["traces_validated_against_impl"] = evals
	}
	ev := map[string]any{
		"property_id": prop, "tier": tier, "seed": seed, "level": spec.Level, "coverage": cov,
		"assumptions": assumptions, "wall_s": wall.Seconds(), "violations": nviol,
	}
	eb, _ := json.MarshalIndent(ev, "", " ")
	// (runs against another checkout - seeded changes on scratch worktrees - keep their evidence and
	// replay files out of /verif: VERIF_OUT names the directory to use instead)
	evDir := filepath.Join(verifRoot, "evidence")
	if o := os.Getenv("VERIF_OUT"); o != "" {
		evDir = filepath.Join(o, "evidence")
	}
	os.MkdirAll(evDir, 0o755)
	if err := os.WriteFile(filepath.Join(evDir, prop+".json"), eb, 0o644); err != nil {
		die("writing evidence: %v", err)
	}
	fmt.Printf("%s tier=%s evaluations=%d states=%d transitions=%d distinct=%d exhaustive=%v violations=%d known=%d wall=%.1fs\n",
		prop, tier, evals, states, trans, distinct, exhaustive, nviol, len(kh), wall.Seconds())
	if nviol > 0 {
		for _, l := range violLines {
			fmt.Println(l)
		}
		return 1
	}
	return 0
}

func firstLines(s string, n int) string {
	l := strings.Split(s, "\n")
	if len(l) > n {
		l = append(l[:n], "...")
	}
	return strings.Join(l, "\n  ")
}

func contains(l []string, s string) bool {
	for _, x := range l {
		if x == s {
			return true
		}
	}
	return false
}

func doReplay(path string) int {
	if abs, err := filepath.Abs(path); err == nil {
		path = abs // the harness runs in another directory
	}
	b, err := os.ReadFile(path)
	if err != nil {
		die("%v", err)
	}
	var w struct {
		Property string `json:"property"`
		Engine   string `json:"engine"`
	}
	if err := json.Unmarshal(b, &w); err != nil {
		die("%v", err)
	}
	spec, ok := props()[w.Property]
	if !ok {
		die("replay file names unknown property %q", w.Property)
	}
	bd := newBuilder()
	bd.tier = "quick"
	defer bd.cleanup()
	for _, e := range spec.Engines {
		if e.Harness == w.Engine || e.Name == w.Engine || e.Harness+"/"+e.Name == w.Engine || len(spec.Engines) == 1 {
			bin := bd.bin(e.Harness, e.Overlay, false)
			args := []string{"--prop", w.Property, "--replay", path}
			if e.Name != "" {
				args = append(args, "--engine", e.Name)
			}
			cmd := exec.Command(bin, append(args, e.Args...)...)
			cmd.Dir = mcRoot
			cmd.Env = env()
			var tail bytes.Buffer
			cmd.Stdout, cmd.Stderr = io.MultiWriter(os.Stdout, &tail), io.MultiWriter(os.Stderr, &tail)
			if err := cmd.Run(); err != nil {
				if ee, ok := err.(*exec.ExitError); ok {
					// the replayed case killed the harness process with a panic inside nri's own code:
					// that is the violation
					if out := tail.String(); ee.ExitCode() == 2 && strings.Contains(out, "\npanic: ") && strings.Contains(out, "github.com/containerd/nri/pkg/") {
						fmt.Printf("VIOLATION property=%s replay=%s\n", w.Property, path)
						return 1
					}
					return ee.ExitCode()
				}
				die("%v", err)
			}
			return 0
		}
	}
	die("no engine %q for property %s", w.Engine, w.Property)
	return 2
}
