package adaptation

// Exported wrappers over unexported seams, added by the verification overlay
// (never part of the repository).

import (
	"context"
	stdnet "net"

	"github.com/containerd/nri/pkg/api"
)

// VerifPlugin is an opaque handle on a runtime-side plugin object.
type VerifPlugin struct{ p *plugin }

// VerifBarePlugin creates a plugin object around an in-process implementation
// of the plugin service (no connection). It is not yet active.
func VerifBarePlugin(r *Adaptation, idx, base string, events api.EventMask, impl api.PluginService) *VerifPlugin {
	return &VerifPlugin{p: &plugin{
		idx: idx, base: base, events: events, r: r,
		regC: make(chan error, 1), closeC: make(chan struct{}),
		impl: &pluginType{ttrpcImpl: impl},
	}}
}

// VerifConnectedPlugin creates a plugin object with the real constructor on
// a connection (real mux, ttrpc client and server) and then swaps in impl
// (if not nil) as the plugin service implementation.
func VerifConnectedPlugin(r *Adaptation, conn stdnet.Conn, idx, base string, events api.EventMask, impl api.PluginService) (*VerifPlugin, error) {
	p, err := r.newExternalPlugin(conn)
	if err != nil {
		return nil, err
	}
	p.idx, p.base, p.events = idx, base, events
	if impl != nil {
		p.impl = &pluginType{ttrpcImpl: impl}
	}
	return &VerifPlugin{p: p}, nil
}

// VerifActivate appends plugins in the given order and sorts, as the accept loop does.
func VerifActivate(r *Adaptation, ps ...*VerifPlugin) {
	r.Lock()
	defer r.Unlock()
	for _, vp := range ps {
		r.plugins = append(r.plugins, vp.p)
		r.sortPlugins()
	}
}

// VerifActiveNames returns the names of the active plugins in invocation order.
func VerifActiveNames(r *Adaptation) []string {
	r.Lock()
	defer r.Unlock()
	var out []string
	for _, p := range r.plugins {
		out = append(out, p.name())
	}
	return out
}

// VerifPluginStates lists the plugin table as it is (nothing is reaped): name and whether the
// plugin's connection is known to be closed.
func VerifPluginStates(r *Adaptation) (open, closed []string) {
	r.Lock()
	defer r.Unlock()
	for _, p := range r.plugins {
		if p.isClosed() {
			closed = append(closed, p.name())
		} else {
			open = append(open, p.name())
		}
	}
	return
}

func (vp *VerifPlugin) Name() string          { return vp.p.name() }
func (vp *VerifPlugin) IsClosed() bool        { return vp.p.isClosed() }
func (vp *VerifPlugin) Events() api.EventMask { return vp.p.events }

// Close closes the plugin. A plugin that was never started has a multiplexer whose reader still waits
// to be unblocked (it would linger for ever): unblock it first so that closing ends it.
func (vp *VerifPlugin) Close() {
	if vp.p.mux != nil {
		vp.p.mux.Unblock()
	}
	vp.p.close()
}

// Configure runs the real configure step (mask validation).
func (vp *VerifPlugin) Configure(ctx context.Context, name, version, config string) error {
	return vp.p.configure(ctx, name, version, config)
}

// Synchronize runs the real sender side of state synchronisation.
func (vp *VerifPlugin) Synchronize(ctx context.Context, pods []*PodSandbox, ctrs []*Container) ([]*ContainerUpdate, error) {
	return vp.p.synchronize(ctx, pods, ctrs)
}

// UpdateContainers runs the real unsolicited-update relay.
func (vp *VerifPlugin) UpdateContainers(ctx context.Context, req *UpdateContainersRequest) (*UpdateContainersResponse, error) {
	return vp.p.UpdateContainers(ctx, req)
}

// VerifAcceptLoop starts the real accept loop on a listener.
func VerifAcceptLoop(r *Adaptation, l stdnet.Listener) { r.acceptPluginConnections(l) }

// VerifIsFatalError exposes the transport error classification.
func VerifIsFatalError(err error) bool { return isFatalError(err) }
