package stub

// Exported wrappers over unexported seams, added by the verification overlay
// (never part of the repository).

import (
	"context"

	"github.com/containerd/nri/pkg/api"
)

// VerifConfigure calls the stub's Configure handler without a connection:
// it provides the channel on which Configure reports its result to Start.
func VerifConfigure(s Stub, ctx context.Context, req *api.ConfigureRequest) (*api.ConfigureResponse, error) {
	st := s.(*stub)
	st.cfgErrC = make(chan error, 1)
	return st.Configure(ctx, req)
}

// VerifEvents returns the mask the stub derived from the plugin's handlers.
func VerifEvents(s Stub) api.EventMask { return s.(*stub).events }

// VerifStaleConnClosed delivers the connection-closed notification of an
// earlier session (one whose done channel is not the current session's), as
// that session's ttrpc client does asynchronously, possibly late.
func VerifStaleConnClosed(s Stub) { s.(*stub).connClosed(make(chan struct{})) }
