// Package vsched is a cooperative scheduler for exhaustive, bounded exploration
// of thread interleavings and other nondeterministic choices on real code.
//
// It is overlaid (go build -overlay) into the nri module as
// github.com/containerd/nri/pkg/zzverif/vsched so that instrumented nri
// packages and the verification harness share one scheduler instance.
//
// Model: every controlled goroutine is a Thread. Exactly one Thread runs at
// a time; it runs until its next *point* (a shim operation such as
// Mutex.Lock, a channel operation, a harness Yield/Block) where it parks and
// hands control back to the scheduler loop. Each point declares a predicate
// telling whether the operation could complete now ("enabled"). The
// scheduler picks the next thread among the enabled ones. All nondeterminism
// (which thread, which ready select case, which map order, which environment
// answer) is a numbered choice; an execution is determined by its choice
// list, which the Explorer enumerates depth first within a cost bound.
//
// With no active scheduler every shim falls through to the real primitive.
package vsched

import (
	"fmt"
	"os"
	"runtime"
	"strings"
	"sync"
	"sync/atomic"
	"time"
)

// CostMode selects how alternatives are charged against the bound.
type CostMode int

const (
	// Preemption bounding: switching away from a thread that could have
	// continued costs 1; switches at blocking points are free.
	Preemption CostMode = iota
	// Deviation (delay) bounding: every non-default choice costs 1.
	Deviation
)

// Config of one execution.
type Config struct {
	Mode CostMode
	// Foreign tells that goroutines outside the scheduler may call shims
	// (semi-controlled scenarios). The current thread is then found by
	// goroutine id and deadlock detection uses a grace period.
	Foreign bool
	// MaxSteps is the horizon: an execution with more scheduling steps is
	// reported as livelock.
	MaxSteps int
	// Grace is how long to keep re-probing before declaring deadlock (only
	// useful with Foreign).
	Grace time.Duration
	// CheckGID verifies on every point that the caller is the running thread
	// (fully controlled mode sanity check, used on first executions).
	CheckGID bool
}

// PointRec records one choice point (a point with at least two alternatives).
type PointRec struct {
	Kind    byte   // 'T' thread choice, 'D' data choice
	N       int    // number of alternatives
	Chosen  int    // alternative taken
	Preempt bool   // 'T' only: the running thread was among the enabled ones
	Label   string // description used for divergence detection and traces
}

// Exec is the result of one execution.
type Exec struct {
	Points  []PointRec
	Choices []int
	Steps   int
	Status  string // "ok", "deadlock", "livelock", "panic", "diverged"
	Detail  string
	Blocked []string // threads still parked at the end (deadlock)
	Trace   []string // tail of the step trace
	Foreign int64    // shim calls by foreign goroutines
}

type opDesc struct {
	kind    string
	obj     any
	enabled func() bool
}

// Thread is one controlled goroutine.
type Thread struct {
	id       int
	name     string
	s        *Sched
	wake     chan struct{}
	op       opDesc
	finished bool
	gid      int64
}

// Sched is the scheduler of one execution.
type Sched struct {
	cfg      Config
	threads  []*Thread
	gidMu    sync.Mutex
	gids     map[int64]*Thread
	running  *Thread
	back     chan *Thread
	prefix   []int
	points   []PointRec
	steps    int
	trace    []string
	closed   map[uintptr]any
	aborting bool
	status   string
	detail   string
	foreign  int64
	inRun    bool
}

var active atomic.Pointer[Sched]

type abortT struct{}

var abortSignal = abortT{}

// progress timestamp for the watchdog (unix nanos); 0 = idle.
var waitingSince atomic.Int64
var watchdogOnce sync.Once

// WatchdogLimit is how long the scheduler may wait for the running thread to
// reach its next point before the process is declared stuck (exit 2).
var WatchdogLimit = 20 * time.Second

func startWatchdog() {
	watchdogOnce.Do(func() {
		go func() {
			for {
				time.Sleep(500 * time.Millisecond)
				w := waitingSince.Load()
				if w != 0 && time.Since(time.Unix(0, w)) > WatchdogLimit {
					s := active.Load()
					fmt.Fprintf(os.Stderr, "vsched: WATCHDOG: running thread did not reach a point within %v\n", WatchdogLimit)
					if s != nil {
						fmt.Fprintf(os.Stderr, "trace tail:\n%s\n", strings.Join(s.traceTail(40), "\n"))
					}
					buf := make([]byte, 1<<20)
					n := runtime.Stack(buf, true)
					os.Stderr.Write(buf[:n])
					os.Exit(2)
				}
			}
		}()
	})
}

func newSched(cfg Config, prefix []int) *Sched {
	if cfg.MaxSteps == 0 {
		cfg.MaxSteps = 100000
	}
	return &Sched{
		cfg:    cfg,
		gids:   map[int64]*Thread{},
		back:   make(chan *Thread),
		prefix: prefix,
		closed: map[uintptr]any{},
	}
}

func (s *Sched) traceTail(n int) []string {
	if len(s.trace) <= n {
		return append([]string(nil), s.trace...)
	}
	return append([]string(nil), s.trace[len(s.trace)-n:]...)
}

// Spawn creates a controlled thread. It may be called by the scenario body
// before the scheduler loop starts (initial threads) or, through Go, by a
// running thread.
func (s *Sched) Spawn(name string, fn func()) *Thread {
	t := &Thread{id: len(s.threads), name: name, s: s, wake: make(chan struct{})}
	t.op = opDesc{kind: "start"}
	s.threads = append(s.threads, t)
	ready := make(chan struct{})
	go func() {
		t.gid = goid()
		s.gidMu.Lock()
		s.gids[t.gid] = t
		s.gidMu.Unlock()
		close(ready)
		<-t.wake
		defer func() {
			r := recover()
			if r != nil {
				if _, ok := r.(abortT); !ok {
					if s.status == "" {
						buf := make([]byte, 16384)
						n := runtime.Stack(buf, false)
						s.status = "panic"
						s.detail = fmt.Sprintf("thread %s: %v\n%s", t.name, r, buf[:n])
					}
				}
			}
			t.finished = true
			s.gidMu.Lock()
			delete(s.gids, t.gid)
			s.gidMu.Unlock()
			s.back <- t
		}()
		if s.aborting {
			panic(abortSignal)
		}
		fn()
	}()
	<-ready
	return t
}

// cur returns the calling controlled thread, or nil.
func cur() *Thread {
	s := active.Load()
	if s == nil || !s.inRun {
		return nil
	}
	if !s.cfg.Foreign {
		t := s.running
		if s.cfg.CheckGID && t != nil && t.gid != goid() {
			// a goroutine outside the scheduler in a fully controlled scenario
			atomic.AddInt64(&s.foreign, 1)
			return nil
		}
		return t
	}
	g := goid()
	s.gidMu.Lock()
	t := s.gids[g]
	s.gidMu.Unlock()
	if t == nil {
		atomic.AddInt64(&s.foreign, 1)
	}
	return t
}

// Active reports whether the caller is a controlled thread of a running scheduler.
func Active() bool { return cur() != nil }

// point parks the thread until the scheduler selects it again.
func (t *Thread) point(kind string, obj any, enabled func() bool) {
	t.op = opDesc{kind: kind, obj: obj, enabled: enabled}
	t.s.back <- t
	<-t.wake
	if t.s.aborting {
		panic(abortSignal)
	}
}

func (t *Thread) isEnabled() bool {
	if t.finished {
		return false
	}
	if t.op.enabled == nil {
		return true
	}
	return t.op.enabled()
}

func (t *Thread) String() string {
	return fmt.Sprintf("%s@%s", t.name, t.op.kind)
}

// choose records a choice point and returns the alternative to take.
func (s *Sched) choose(kind byte, n int, preempt bool, label string) int {
	if n <= 1 {
		return 0
	}
	idx := len(s.points)
	c := 0
	if idx < len(s.prefix) {
		c = s.prefix[idx]
		if c >= n || c < 0 {
			if s.status == "" {
				s.status = "diverged"
				s.detail = fmt.Sprintf("choice %d out of range at point %d (%s, n=%d)", c, idx, label, n)
			}
			c = 0
		}
	}
	s.points = append(s.points, PointRec{Kind: kind, N: n, Chosen: c, Preempt: preempt, Label: label})
	return c
}

// run is the scheduler loop.
func (s *Sched) run() {
	startWatchdog()
	s.inRun = true
	defer func() { s.inRun = false }()
	for {
		if s.status != "" {
			break
		}
		// enabled set in canonical order: running thread first, then ascending id
		var enabled []*Thread
		preempt := false
		if s.running != nil && s.running.isEnabled() {
			enabled = append(enabled, s.running)
			preempt = true
		}
		for _, t := range s.threads {
			if t != s.running && t.isEnabled() {
				enabled = append(enabled, t)
			}
		}
		if len(enabled) == 0 {
			all := true
			for _, t := range s.threads {
				if !t.finished {
					all = false
				}
			}
			if all {
				s.status = "ok"
				break
			}
			if s.cfg.Grace > 0 && s.graceRetry() {
				continue
			}
			s.status = "deadlock"
			break
		}
		if s.steps >= s.cfg.MaxSteps {
			s.status = "livelock"
			s.detail = fmt.Sprintf("horizon of %d steps exceeded", s.cfg.MaxSteps)
			break
		}
		var label string
		if len(enabled) > 1 {
			var sb strings.Builder
			for i, t := range enabled {
				if i > 0 {
					sb.WriteByte(' ')
				}
				sb.WriteString(t.String())
			}
			label = sb.String()
		}
		pick := enabled[s.choose('T', len(enabled), preempt, label)]
		s.steps++
		if len(s.trace) < 4096 {
			s.trace = append(s.trace, pick.String())
		} else {
			copy(s.trace, s.trace[2048:])
			s.trace = append(s.trace[:2048], pick.String())
		}
		s.running = pick
		waitingSince.Store(time.Now().UnixNano())
		pick.wake <- struct{}{}
		<-s.back
		waitingSince.Store(0)
	}
}

func (s *Sched) graceRetry() bool {
	deadline := time.Now().Add(s.cfg.Grace)
	for time.Now().Before(deadline) {
		time.Sleep(200 * time.Microsecond)
		for _, t := range s.threads {
			if t.isEnabled() {
				return true
			}
		}
	}
	return false
}

// abort wakes every parked thread with the abort flag so that it unwinds.
func (s *Sched) abort() {
	s.aborting = true
	s.inRun = false
	for _, t := range s.threads {
		if t.finished {
			continue
		}
		select {
		case t.wake <- struct{}{}:
			select {
			case <-s.back:
			case <-time.After(5 * time.Second):
				// thread stuck in a real primitive; leak it
			}
		case <-time.After(2 * time.Second):
		}
	}
}

// Body sets a scenario up on a fresh scheduler (spawning its initial threads).
type Body func(s *Sched)

var runMu sync.Mutex

// RunOnce performs one execution following the given choice prefix and
// default choices afterwards.
func RunOnce(cfg Config, prefix []int, body Body) *Exec {
	runMu.Lock()
	defer runMu.Unlock()
	s := newSched(cfg, prefix)
	active.Store(s)
	body(s)
	s.run()
	ex := &Exec{Points: s.points, Steps: s.steps, Status: s.status, Detail: s.detail}
	if s.status != "ok" {
		for _, t := range s.threads {
			if !t.finished {
				ex.Blocked = append(ex.Blocked, t.String())
			}
		}
		ex.Trace = s.traceTail(60)
	}
	s.abort()
	active.Store(nil)
	ex.Foreign = atomic.LoadInt64(&s.foreign)
	ex.Choices = make([]int, len(s.points))
	for i, p := range s.points {
		ex.Choices[i] = p.Chosen
	}
	return ex
}

// ---- operations available to harnesses and instrumented code ----

// Yield is an always-enabled scheduling point.
func Yield(label string) {
	if t := cur(); t != nil {
		t.point("yield:"+label, nil, nil)
	}
}

// Block parks the calling thread until enabled() holds. It is a no-op when
// the caller is not a controlled thread (the caller must then block for real).
// It returns whether the caller is controlled.
func Block(label string, obj any, enabled func() bool) bool {
	if t := cur(); t != nil {
		t.point(label, obj, enabled)
		return true
	}
	return false
}

// Choose is a data choice with n alternatives; alternative 0 is the default.
func Choose(n int, label string) int {
	t := cur()
	if t == nil {
		if f := inlineChooser.Load(); f != nil {
			return (*f)(n, label)
		}
		return 0
	}
	return t.s.choose('D', n, false, label)
}

var inlineChooser atomic.Pointer[func(n int, label string) int]

// SetInlineChooser installs a function answering data choices made outside
// any scheduler (used by sequential harnesses that enumerate map orders
// without threads). nil removes it.
func SetInlineChooser(f func(n int, label string) int) {
	if f == nil {
		inlineChooser.Store(nil)
		return
	}
	inlineChooser.Store(&f)
}

// Go starts fn as a controlled thread when called from one, else as a plain goroutine.
func Go(name string, fn func()) {
	if t := cur(); t != nil {
		t.s.Spawn(name, fn)
		return
	}
	go fn()
}

// ThreadName returns the name of the calling controlled thread ("" if none).
func ThreadName() string {
	if t := cur(); t != nil {
		return t.name
	}
	return ""
}

func goid() int64 {
	var buf [64]byte
	n := runtime.Stack(buf[:], false)
	// "goroutine 123 ["
	var id int64
	for i := len("goroutine "); i < n; i++ {
		c := buf[i]
		if c < '0' || c > '9' {
			break
		}
		id = id*10 + int64(c-'0')
	}
	return id
}

// ---- gates (T-gate) ----------------------------------------------------

var gates sync.Map // name -> func(obj any)

// SetGate installs (or, with nil, removes) the handler run at a named gate. The handler is
// given the receiver of the gated method, so that it can tell which object it is about.
func SetGate(name string, f func(obj any)) {
	if f == nil {
		gates.Delete(name)
		return
	}
	gates.Store(name, f)
}

// Gate is called at the entry of functions selected by the instrumenter; it
// runs the harness' handler for that gate (which may block until released).
func Gate(name string, obj any) {
	if f, ok := gates.Load(name); ok {
		f.(func(any))(obj)
	}
}
