package vsched

import (
	"sync"
	"sync/atomic"
)

// The instrumenter rewrites `import "sync"` to this package (named sync), so
// every name of package sync that nri code might use must exist here.

type (
	Locker    = sync.Locker
	Map       = sync.Map
	Pool      = sync.Pool
)

var (
	OnceFunc = sync.OnceFunc
)

// Mutex is a scheduler-aware sync.Mutex.
type Mutex struct {
	mu sync.Mutex
}

func (m *Mutex) Lock() {
	if t := cur(); t != nil {
		t.point("Lock", m, func() bool {
			if m.mu.TryLock() {
				m.mu.Unlock()
				return true
			}
			return false
		})
	}
	m.mu.Lock()
}

func (m *Mutex) TryLock() bool {
	if t := cur(); t != nil {
		t.point("TryLock", m, nil)
	}
	return m.mu.TryLock()
}

func (m *Mutex) Unlock() { m.mu.Unlock() }

// RWMutex is a scheduler-aware sync.RWMutex with Go's writer preference: a
// writer that has called Lock blocks later RLock calls.
type RWMutex struct {
	rw       sync.RWMutex
	pendingW int32
}

func (m *RWMutex) Lock() {
	if t := cur(); t != nil {
		atomic.AddInt32(&m.pendingW, 1)
		t.point("RW.Lock", m, func() bool {
			if m.rw.TryLock() {
				m.rw.Unlock()
				return true
			}
			return false
		})
		atomic.AddInt32(&m.pendingW, -1)
	}
	m.rw.Lock()
}

func (m *RWMutex) Unlock() { m.rw.Unlock() }

func (m *RWMutex) RLock() {
	if t := cur(); t != nil {
		t.point("RW.RLock", m, func() bool {
			if atomic.LoadInt32(&m.pendingW) != 0 {
				return false
			}
			if m.rw.TryRLock() {
				m.rw.RUnlock()
				return true
			}
			return false
		})
	}
	m.rw.RLock()
}

func (m *RWMutex) RUnlock() { m.rw.RUnlock() }

func (m *RWMutex) TryLock() bool   { return m.rw.TryLock() }
func (m *RWMutex) TryRLock() bool  { return atomic.LoadInt32(&m.pendingW) == 0 && m.rw.TryRLock() }
func (m *RWMutex) RLocker() Locker { return (*rlocker)(m) }

type rlocker RWMutex

func (r *rlocker) Lock()   { (*RWMutex)(r).RLock() }
func (r *rlocker) Unlock() { (*RWMutex)(r).RUnlock() }

// Once is a scheduler-aware sync.Once: callers block while another caller
// is inside f, done is set when f returns.
type Once struct {
	m    sync.Mutex
	done atomic.Bool
}

func (o *Once) Do(f func()) {
	if t := cur(); t != nil {
		t.point("Once.Do", o, func() bool {
			if o.done.Load() {
				return true
			}
			if o.m.TryLock() {
				o.m.Unlock()
				return true
			}
			return false
		})
	}
	if o.done.Load() {
		return
	}
	o.m.Lock()
	defer o.m.Unlock()
	if !o.done.Load() {
		defer o.done.Store(true)
		f()
	}
}

// Cond is a scheduler-aware sync.Cond. A waiter registers itself before it
// releases L (so no wake-up is lost), then blocks at a scheduler point that is
// enabled once Signal or Broadcast has picked it; outside the scheduler it
// blocks on a channel instead.
type Cond struct {
	L Locker

	mu      sync.Mutex
	waiters []*condWaiter
}

type condWaiter struct {
	woken atomic.Bool
	ch    chan struct{}
}

func NewCond(l Locker) *Cond { return &Cond{L: l} }

func (c *Cond) Wait() {
	w := &condWaiter{ch: make(chan struct{})}
	c.mu.Lock()
	c.waiters = append(c.waiters, w)
	c.mu.Unlock()
	c.L.Unlock()
	if t := cur(); t != nil {
		t.point("Cond.Wait", c, func() bool { return w.woken.Load() })
	}
	<-w.ch
	c.L.Lock()
}

func (c *Cond) Signal() {
	if t := cur(); t != nil {
		t.point("Cond.Signal", c, nil)
	}
	c.mu.Lock()
	if len(c.waiters) > 0 {
		w := c.waiters[0]
		c.waiters = c.waiters[1:]
		w.woken.Store(true)
		close(w.ch)
	}
	c.mu.Unlock()
}

func (c *Cond) Broadcast() {
	if t := cur(); t != nil {
		t.point("Cond.Broadcast", c, nil)
	}
	c.mu.Lock()
	for _, w := range c.waiters {
		w.woken.Store(true)
		close(w.ch)
	}
	c.waiters = nil
	c.mu.Unlock()
}

// WaitGroup is a scheduler-aware sync.WaitGroup: Wait is a scheduler point
// enabled when the counter is zero.
type WaitGroup struct {
	n    atomic.Int64
	real sync.WaitGroup
}

func (w *WaitGroup) Add(d int) {
	if d < 0 {
		w.n.Add(int64(d))
		w.real.Add(d)
		return
	}
	w.real.Add(d)
	w.n.Add(int64(d))
}

func (w *WaitGroup) Done() { w.Add(-1) }

func (w *WaitGroup) Wait() {
	if t := cur(); t != nil {
		t.point("WaitGroup.Wait", w, func() bool { return w.n.Load() <= 0 })
	}
	w.real.Wait()
}
