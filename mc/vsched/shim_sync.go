package vsched

import (
	"sync"
	"sync/atomic"
)

// The instrumenter rewrites `import "sync"` to this package (named sync), so
// every name of package sync that nri code might use must exist here.

type (
	Locker    = sync.Locker
	WaitGroup = sync.WaitGroup
	Cond      = sync.Cond
	Map       = sync.Map
	Pool      = sync.Pool
)

var (
	NewCond  = sync.NewCond
	OnceFunc = sync.OnceFunc
)

// Mutex is a scheduler-aware sync.Mutex.
type Mutex struct {
	mu sync.Mutex
}

func (m *Mutex) Lock() {
	if t := cur(); t != nil {
		t.point("Lock", m, func() bool {
			if m.mu.TryLock() {
				m.mu.Unlock()
				return true
			}
			return false
		})
	}
	m.mu.Lock()
}

func (m *Mutex) TryLock() bool {
	if t := cur(); t != nil {
		t.point("TryLock", m, nil)
	}
	return m.mu.TryLock()
}

func (m *Mutex) Unlock() { m.mu.Unlock() }

// RWMutex is a scheduler-aware sync.RWMutex with Go's writer preference: a
// writer that has called Lock blocks later RLock calls.
type RWMutex struct {
	rw       sync.RWMutex
	pendingW int32
}

func (m *RWMutex) Lock() {
	if t := cur(); t != nil {
		atomic.AddInt32(&m.pendingW, 1)
		t.point("RW.Lock", m, func() bool {
			if m.rw.TryLock() {
				m.rw.Unlock()
				return true
			}
			return false
		})
		atomic.AddInt32(&m.pendingW, -1)
	}
	m.rw.Lock()
}

func (m *RWMutex) Unlock() { m.rw.Unlock() }

func (m *RWMutex) RLock() {
	if t := cur(); t != nil {
		t.point("RW.RLock", m, func() bool {
			if atomic.LoadInt32(&m.pendingW) != 0 {
				return false
			}
			if m.rw.TryRLock() {
				m.rw.RUnlock()
				return true
			}
			return false
		})
	}
	m.rw.RLock()
}

func (m *RWMutex) RUnlock() { m.rw.RUnlock() }

func (m *RWMutex) TryLock() bool   { return m.rw.TryLock() }
func (m *RWMutex) TryRLock() bool  { return atomic.LoadInt32(&m.pendingW) == 0 && m.rw.TryRLock() }
func (m *RWMutex) RLocker() Locker { return (*rlocker)(m) }

type rlocker RWMutex

func (r *rlocker) Lock()   { (*RWMutex)(r).RLock() }
func (r *rlocker) Unlock() { (*RWMutex)(r).RUnlock() }

// Once is a scheduler-aware sync.Once: callers block while another caller
// is inside f, done is set when f returns.
type Once struct {
	m    sync.Mutex
	done atomic.Bool
}

func (o *Once) Do(f func()) {
	if t := cur(); t != nil {
		t.point("Once.Do", o, func() bool {
			if o.done.Load() {
				return true
			}
			if o.m.TryLock() {
				o.m.Unlock()
				return true
			}
			return false
		})
	}
	if o.done.Load() {
		return
	}
	o.m.Lock()
	defer o.m.Unlock()
	if !o.done.Load() {
		defer o.done.Store(true)
		f()
	}
}
