package vsched

import "testing"

// Self-tests of the Cond and WaitGroup shims: the explorer must pass a correct
// wait loop on every schedule, and must find the schedule on which a waiter
// that tests its condition with `if` proceeds although the condition is false.

func exploreCond(t *testing.T, name string, loop bool) *Explorer {
	sc := &Scenario{Name: name, Cfg: Config{Mode: Preemption, MaxSteps: 2000, CheckGID: true}}
	sc.New = func() (Body, func(*Exec) ([]string, string)) {
		var (
			mu       Mutex
			tokens   int
			overdraw bool
			wg       WaitGroup
			done     bool
		)
		cond := NewCond(&mu)
		take := func() {
			defer wg.Done()
			mu.Lock()
			if loop {
				for tokens == 0 {
					cond.Wait()
				}
			} else if tokens == 0 {
				cond.Wait()
			}
			if tokens == 0 {
				overdraw = true
			} else {
				tokens--
			}
			mu.Unlock()
		}
		put := func() {
			defer wg.Done()
			mu.Lock()
			tokens++
			mu.Unlock()
			cond.Broadcast()
		}
		body := func(s *Sched) {
			wg.Add(4)
			s.Spawn("take1", take)
			s.Spawn("take2", take)
			s.Spawn("put1", put)
			s.Spawn("put2", put)
			s.Spawn("join", func() { wg.Wait(); done = true })
		}
		check := func(ex *Exec) ([]string, string) {
			var v []string
			if ex.Status != "ok" {
				v = append(v, "status "+ex.Status+" "+ex.Detail)
			} else if !done {
				v = append(v, "join did not finish")
			}
			if overdraw {
				v = append(v, "a taker proceeded with no token")
			}
			if overdraw {
				return v, "overdraw"
			}
			return v, ex.Status
		}
		return body, check
	}
	e := &Explorer{Sc: sc, Bound: 2}
	if err := e.Run(); err != nil {
		t.Fatal(err)
	}
	return e
}

func TestCondLoopHolds(t *testing.T) {
	e := exploreCond(t, "cond-loop", true)
	if len(e.Violations) != 0 {
		t.Fatalf("correct wait loop reported: %+v", e.Violations[0])
	}
	if e.Execs < 50 {
		t.Fatalf("only %d executions explored", e.Execs)
	}
	t.Logf("executions=%d outcomes=%v", e.Execs, e.Outcomes)
}

func TestCondIfFound(t *testing.T) {
	e := exploreCond(t, "cond-if", false)
	if len(e.Violations) == 0 {
		t.Fatalf("wait guarded by `if` not reported in %d executions", e.Execs)
	}
	t.Logf("executions=%d first violation: %v choices=%v", e.Execs, e.Violations[0].Messages, e.Violations[0].Choices)
}
