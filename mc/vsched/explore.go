package vsched

import (
	"encoding/json"
	"fmt"
	"os"
	"time"
)

// Scenario is one closed driver to explore. New is called before every
// execution and returns the body that spawns the threads (on fresh state) and
// a check function evaluated on the finished execution. check returns the
// violation messages (empty = property held) and an outcome string used to
// count distinct observed outcomes.
type Scenario struct {
	Name string
	Cfg  Config
	New  func() (body Body, check func(ex *Exec) (violations []string, outcome string))
}

// Violation found by the explorer.
type Violation struct {
	Scenario string   `json:"scenario"`
	Choices  []int    `json:"choices"`
	Messages []string `json:"messages"`
	Status   string   `json:"status"`
	Detail   string   `json:"detail,omitempty"`
	Blocked  []string `json:"blocked,omitempty"`
	Trace    []string `json:"trace,omitempty"`
}

// Explorer enumerates, depth first, every execution whose total cost is
// within Bound.
type Explorer struct {
	Sc       *Scenario
	Bound    int
	Shard    int // this process explores the level-1 subtrees with index%NShards==Shard
	NShards  int
	MaxExecs int       // 0 = unlimited
	Deadline time.Time // zero = none
	MaxViol  int       // stop after this many violations (default 5)

	Execs      int
	PointsSeen int // choice points visited (states)
	Steps      int // scheduling steps executed (transitions)
	Outcomes   map[string]int
	Violations []Violation
	Capped     bool
	MaxDepth   int
	level1     int
	Samples    [][]int
	Diverged   string
}

func (e *Explorer) cost(p PointRec, alt int) int {
	if alt == 0 {
		return 0
	}
	if p.Kind == 'T' && e.Sc.Cfg.Mode == Preemption {
		if p.Preempt {
			return 1
		}
		return 0
	}
	return 1
}

// Run explores the scenario. It returns an error only for machinery
// problems (non-deterministic replay).
func (e *Explorer) Run() error {
	if e.Outcomes == nil {
		e.Outcomes = map[string]int{}
	}
	if e.NShards == 0 {
		e.NShards = 1
	}
	if e.MaxViol == 0 {
		e.MaxViol = 5
	}
	// determinism guard: the default execution twice, identical point lists
	a := e.runOne(nil, false)
	b := e.runOne(nil, false)
	if d := diffPoints(a.Points, b.Points, len(a.Points)+len(b.Points)); d != "" || a.Status != b.Status {
		return fmt.Errorf("scenario %s is not deterministic: %s (status %s vs %s)", e.Sc.Name, d, a.Status, b.Status)
	}
	e.explore(nil, nil, true)
	if e.Diverged != "" {
		return fmt.Errorf("scenario %s diverged while replaying a prefix: %s", e.Sc.Name, e.Diverged)
	}
	return nil
}

func diffPoints(a, b []PointRec, upto int) string {
	for i := 0; i < upto; i++ {
		if i >= len(a) || i >= len(b) {
			if len(a) != len(b) {
				return fmt.Sprintf("length %d vs %d", len(a), len(b))
			}
			return ""
		}
		if a[i].N != b[i].N || a[i].Label != b[i].Label || a[i].Kind != b[i].Kind {
			return fmt.Sprintf("point %d: %c n=%d %q vs %c n=%d %q", i, a[i].Kind, a[i].N, a[i].Label, b[i].Kind, b[i].N, b[i].Label)
		}
	}
	return ""
}

// journal records the execution about to run, so that a crash of the whole
// process (e.g. the Go runtime's unrecoverable "out of memory") can still be
// attributed to a replayable execution by the runner.
func journal(name string, prefix []int) {
	p := os.Getenv("VSCHED_JOURNAL")
	if p == "" {
		return
	}
	b, _ := json.Marshal(map[string]any{"scenario": name, "choices": prefix})
	os.WriteFile(p, b, 0o644)
}

func (e *Explorer) runOne(prefix []int, count bool) *Exec {
	journal(e.Sc.Name, prefix)
	body, check := e.Sc.New()
	cfg := e.Sc.Cfg
	if e.Execs < 2 && !cfg.Foreign {
		cfg.CheckGID = true
	}
	ex := RunOnce(cfg, prefix, body)
	if !count {
		return ex
	}
	e.Execs++
	e.PointsSeen += len(ex.Points) + 1
	e.Steps += ex.Steps
	if len(ex.Points) > e.MaxDepth {
		e.MaxDepth = len(ex.Points)
	}
	if ex.Status == "diverged" {
		e.Diverged = ex.Detail
		return ex
	}
	viol, outcome := check(ex)
	if !cfg.Foreign && ex.Foreign != 0 {
		viol = append(viol, fmt.Sprintf("machinery: %d shim calls from goroutines outside the scheduler in a fully controlled scenario", ex.Foreign))
	}
	e.Outcomes[ex.Status+"|"+outcome]++
	if len(e.Samples) < 3 {
		e.Samples = append(e.Samples, append([]int(nil), ex.Choices...))
	}
	if len(viol) > 0 {
		e.Violations = append(e.Violations, Violation{
			Scenario: e.Sc.Name, Choices: append([]int(nil), ex.Choices...), Messages: viol,
			Status: ex.Status, Detail: ex.Detail, Blocked: ex.Blocked, Trace: ex.Trace,
		})
	}
	return ex
}

func (e *Explorer) stop() bool {
	if len(e.Violations) >= e.MaxViol || e.Diverged != "" {
		return true
	}
	if e.MaxExecs > 0 && e.Execs >= e.MaxExecs {
		e.Capped = true
		return true
	}
	if !e.Deadline.IsZero() && time.Now().After(e.Deadline) {
		e.Capped = true
		return true
	}
	return false
}

// explore runs the execution with the given prefix and recurses into every
// alternative at later points that fits the bound. parent is the point list
// of the execution the prefix was derived from (divergence check).
func (e *Explorer) explore(prefix []int, parent []PointRec, root bool) {
	if e.stop() {
		return
	}
	mine := true
	if root && e.NShards > 1 && e.Shard != 0 {
		mine = false // the root execution is counted by shard 0 only
	}
	ex := e.runOne(prefix, mine)
	if ex.Status == "diverged" {
		e.Diverged = ex.Detail
		return
	}
	if parent != nil {
		if d := diffPoints(parent, ex.Points, len(prefix)); d != "" {
			e.Diverged = d
			return
		}
	}
	// cost already consumed by the prefix
	c := 0
	for i := 0; i < len(prefix) && i < len(ex.Points); i++ {
		c += e.cost(ex.Points[i], ex.Points[i].Chosen)
	}
	for i := len(prefix); i < len(ex.Points); i++ {
		p := ex.Points[i]
		for alt := 1; alt < p.N; alt++ {
			if c+e.cost(p, alt) > e.Bound {
				continue
			}
			if root {
				idx := e.level1
				e.level1++
				if idx%e.NShards != e.Shard {
					continue
				}
			}
			np := make([]int, i+1)
			copy(np, ex.Choices[:i])
			np[i] = alt
			e.explore(np, ex.Points, false)
			if e.stop() {
				return
			}
		}
		// choices after the prefix are all default (cost 0), so c is unchanged
	}
}

// Replay runs one recorded execution and returns its result and verdict.
func (sc *Scenario) Replay(choices []int) (*Exec, []string, string) {
	body, check := sc.New()
	ex := RunOnce(sc.Cfg, choices, body)
	v, o := check(ex)
	return ex, v, o
}
