package vsched

import (
	"fmt"
	"reflect"
	"sort"
)

// Channel operations (T-chan). The instrumenter inserts BeforeRecv/BeforeSend
// before plain channel statements, rewrites close(c) to Close(c) and select
// statements to a switch over PickCase. Because exactly one controlled
// thread runs between two points, the real channel operation that follows a
// point whose predicate held cannot block.

func chanKey(c any) uintptr {
	v := reflect.ValueOf(c)
	if v.Kind() != reflect.Chan || v.IsNil() {
		return 0
	}
	return v.Pointer()
}

func (s *Sched) isClosed(c any) bool {
	k := chanKey(c)
	if k == 0 {
		return false
	}
	_, ok := s.closed[k]
	return ok
}

func (s *Sched) recvReady(c any) bool {
	v := reflect.ValueOf(c)
	if v.Kind() != reflect.Chan || v.IsNil() {
		return false
	}
	return v.Len() > 0 || s.isClosed(c)
}

func (s *Sched) sendReady(c any) bool {
	v := reflect.ValueOf(c)
	if v.Kind() != reflect.Chan || v.IsNil() {
		return false
	}
	if v.Cap() == 0 {
		// an unbuffered send needs a rendezvous, which this scheduler does
		// not model; a send on a closed channel "proceeds" (and panics)
		return s.isClosed(c)
	}
	return v.Len() < v.Cap() || s.isClosed(c)
}

// BeforeRecv parks until a receive from c can complete.
func BeforeRecv(c any) {
	if t := cur(); t != nil {
		s := t.s
		t.point("recv", c, func() bool { return s.recvReady(c) })
	}
}

// BeforeSend parks until a send to c can complete.
func BeforeSend(c any) {
	if t := cur(); t != nil {
		s := t.s
		if v := reflect.ValueOf(c); v.Kind() == reflect.Chan && !v.IsNil() && v.Cap() == 0 {
			panic(fmt.Sprintf("vsched: unbuffered send on %T between controlled threads is not modelled", c))
		}
		t.point("send", c, func() bool { return s.sendReady(c) })
	}
}

// MarkClosed records that c is closed (for channels closed by plain close()).
func MarkClosed(c any) {
	if t := cur(); t != nil {
		if k := chanKey(c); k != 0 {
			t.s.closed[k] = c
		}
	}
}

// BeforeClose is a scheduling point before close(c); it records the channel
// as closed so that receivers become enabled. The real close(c) follows in
// the instrumented code (and panics on a double close, as in Go).
func BeforeClose(c any) {
	if t := cur(); t != nil {
		t.point("close", c, nil)
		if k := chanKey(c); k != 0 {
			if _, dup := t.s.closed[k]; !dup {
				t.s.closed[k] = c
			}
		}
	}
}

// Case describes one communication clause of a select.
type Case struct {
	c    any
	send bool
}

// R is a receive case, S a send case.
func R(c any) Case { return Case{c: c} }
func S(c any) Case { return Case{c: c, send: true} }

// PickCase decides which case of a select fires: it parks until one is ready
// (or returns -1 at once when the select has a default and nothing is
// ready). With several ready cases the explorer chooses.
func PickCase(hasDefault bool, cases ...Case) int {
	t := cur()
	if t == nil {
		panic("vsched: PickCase outside the scheduler (T-chan code must run controlled)")
	}
	s := t.s
	ready := func() []int {
		var r []int
		for i, c := range cases {
			if c.send {
				if s.sendReady(c.c) {
					r = append(r, i)
				}
			} else if s.recvReady(c.c) {
				r = append(r, i)
			}
		}
		return r
	}
	if hasDefault {
		t.point("select+default", nil, nil)
	} else {
		t.point("select", nil, func() bool { return len(ready()) > 0 })
	}
	r := ready()
	switch len(r) {
	case 0:
		return -1
	case 1:
		return r[0]
	}
	return r[s.choose('D', len(r), false, fmt.Sprintf("select%v", r))]
}

// MapOrder returns the keys of m in the order the iteration shall visit
// them: sorted by default, any permutation (≤ 4 keys) or rotation (more)
// as an explorer choice.
func MapOrder[M ~map[K]V, K comparable, V any](m M) []K {
	keys := make([]K, 0, len(m))
	for k := range m {
		keys = append(keys, k)
	}
	sort.Slice(keys, func(i, j int) bool { return fmt.Sprint(keys[i]) < fmt.Sprint(keys[j]) })
	n := len(keys)
	if n < 2 {
		return keys
	}
	if n <= 4 {
		f := 1
		for i := 2; i <= n; i++ {
			f *= i
		}
		p := Choose(f, fmt.Sprintf("maporder%d", n))
		if p == 0 {
			return keys
		}
		// p-th permutation in lexicographic order (factorial number system)
		out := make([]K, 0, n)
		rest := append([]K(nil), keys...)
		for i := n; i >= 1; i-- {
			f /= i
			idx := p / f
			p %= f
			out = append(out, rest[idx])
			rest = append(rest[:idx], rest[idx+1:]...)
		}
		return out
	}
	r := Choose(n, fmt.Sprintf("maprot%d", n))
	if r == 0 {
		return keys
	}
	return append(append([]K(nil), keys[r:]...), keys[:r]...)
}
