// Harness "procs": pre-installed plugins launched by the runtime as real
// processes. The harness binary doubles as the probe plugin (lib/probe):
// it is hard-linked into a scratch plugin directory under names
// "NN-<mode>-<tag>". Enumerates directory layouts x drop-in pairs x failure
// mode vectors. Decides C18.
package main

import (
	"context"
	"encoding/json"
	"fmt"
	"io"
	"os"
	"path/filepath"
	"sort"
	"strings"
	"sync"
	"syscall"
	"time"

	"github.com/containerd/nri/pkg/adaptation"
	"github.com/containerd/nri/pkg/api"
	"github.com/sirupsen/logrus"

	"nriverif/lib/probe"
	"nriverif/lib/rep"
)

type entry struct {
	File string `json:"file"` // NN-mode-tag
	Kind string `json:"kind"` // exec | noexec | dir | garbage
}

type layout struct {
	Name    string            `json:"name"`
	Entries []entry           `json:"entries"`
	Dropins map[string]string `json:"dropins"` // file name under conf.d -> content
}

const (
	regTimeout = 400 * time.Millisecond
	reqTimeout = 400 * time.Millisecond
)

var self string

func modeOf(file string) string { return strings.SplitN(file, "-", 3)[1] }
func idxOf(file string) string  { return file[:2] }
func baseOf(file string) string { return file[3:] }

func linkOrCopy(src, dst string) error {
	if err := os.Link(src, dst); err == nil {
		return nil
	}
	in, err := os.Open(src)
	if err != nil {
		return err
	}
	defer in.Close()
	out, err := os.OpenFile(dst, os.O_CREATE|os.O_WRONLY, 0o755)
	if err != nil {
		return err
	}
	defer out.Close()
	_, err = io.Copy(out, in)
	return err
}

func procState(pid int) string {
	b, err := os.ReadFile(fmt.Sprintf("/proc/%d/stat", pid))
	if err != nil {
		return "gone"
	}
	s := string(b)
	i := strings.LastIndex(s, ")")
	if i < 0 || i+2 >= len(s) {
		return "?"
	}
	return string(s[i+2])
}

func runLayout(l layout) (viol []string, sig string) {
	add := func(kind, f string, a ...any) {
		viol = append(viol, fmt.Sprintf(f, a...))
		if sig == "" {
			sig = "C18|" + kind
		}
	}
	base := os.Getenv("VERIF_SCRATCH")
	if base == "" {
		base = "/var/tmp"
	}
	dir, err := os.MkdirTemp(base, "nriprocs-")
	if err != nil {
		return []string{"machinery: " + err.Error()}, "C18|machinery"
	}
	defer os.RemoveAll(dir)
	pdir, cdir, rdir := filepath.Join(dir, "plugins"), filepath.Join(dir, "conf.d"), filepath.Join(dir, "reports")
	// whatever happens (also when a step gets stuck and the layout is abandoned): no probe process
	// launched for this layout stays behind
	defer func() {
		files, _ := filepath.Glob(filepath.Join(rdir, "*.json"))
		for _, f := range files {
			var rp probe.Report
			if b, err := os.ReadFile(f); err == nil && json.Unmarshal(b, &rp) == nil && rp.Pid > 1 {
				if exe, err := os.Readlink(fmt.Sprintf("/proc/%d/exe", rp.Pid)); err == nil && strings.HasPrefix(exe, pdir) {
					syscall.Kill(rp.Pid, syscall.SIGKILL)
				}
			}
		}
	}()
	os.MkdirAll(pdir, 0o755)
	os.MkdirAll(cdir, 0o755)
	os.MkdirAll(rdir, 0o755)
	for _, e := range l.Entries {
		p := filepath.Join(pdir, e.File)
		switch e.Kind {
		case "exec":
			if err := linkOrCopy(self, p); err != nil {
				return []string{"machinery: " + err.Error()}, "C18|machinery"
			}
		case "noexec":
			linkOrCopy(self, p+".tmp")
			b, _ := os.ReadFile(p + ".tmp")
			os.Remove(p + ".tmp")
			os.WriteFile(p, b, 0o644)
		case "dir":
			os.MkdirAll(p, 0o755)
		case "dir-with-copy", "dir-with-tool":
			// a sub-directory that itself holds an executable: a parked copy named like an installed
			// plugin, or a helper whose name is no plugin name at all
			os.MkdirAll(p, 0o755)
			inner := "10-ok-a"
			if e.Kind == "dir-with-tool" {
				inner = "helper"
			}
			if err := linkOrCopy(self, filepath.Join(p, inner)); err != nil {
				return []string{"machinery: " + err.Error()}, "C18|machinery"
			}
		case "garbage":
			os.WriteFile(p, []byte("this is not an executable format\n"), 0o755)
		}
	}
	for n, c := range l.Dropins {
		os.WriteFile(filepath.Join(cdir, n), []byte(c), 0o644)
	}
	r, err := adaptation.New("verif-runtime", "1.0",
		func(ctx context.Context, cb adaptation.SyncCB) error {
			_, err := cb(ctx, []*api.PodSandbox{{Id: "pod0"}}, []*api.Container{{Id: "c0", PodSandboxId: "pod0"}})
			return err
		},
		func(context.Context, []*api.ContainerUpdate) ([]*api.ContainerUpdate, error) { return nil, nil },
		adaptation.WithPluginPath(pdir), adaptation.WithPluginConfigPath(cdir), adaptation.WithSocketPath(filepath.Join(dir, "nri.sock")))
	if err != nil {
		return []string{"machinery: " + err.Error()}, "C18|machinery"
	}
	startDone := make(chan error, 1)
	go func() { startDone <- r.Start() }()
	select {
	case err := <-startDone:
		if err != nil {
			add("start-failed", "Start failed: %v", err)
			return
		}
	case <-time.After(time.Duration(len(l.Entries)+1)*4*regTimeout + 15*time.Second):
		add("start-stuck", "Start did not return")
		return
	}
	evt := &api.StateChangeEvent{Pod: &api.PodSandbox{Id: "pod0"}, Container: &api.Container{Id: "c0", PodSandboxId: "pod0"}}
	evDone := make(chan error, 1)
	go func() { evDone <- r.StartContainer(context.Background(), evt) }()
	select {
	case err := <-evDone:
		if err != nil {
			add("event-failed", "event failed although only plugins with transport failures misbehaved: %v", err)
		}
	case <-time.After(time.Duration(len(l.Entries)+1)*reqTimeout + 15*time.Second):
		add("event-stuck", "the event did not return")
		return
	}
	// a second event, so that dropped plugins are pruned and killed
	r.StartContainer(context.Background(), evt)
	time.Sleep(30 * time.Millisecond)
	// plugins that drop their connection while the runtime is idle (and stay alive): wait until the
	// runtime has noticed; no further event follows, Stop comes next
	for _, e := range l.Entries {
		if e.Kind == "exec" && modeOf(e.File) == "closeidle" {
			name := e.File
			waitUntil(3*time.Second, func() bool {
				open, _ := adaptation.VerifPluginStates(r)
				for _, n := range open {
					if n == name {
						return false
					}
				}
				return true
			})
		}
	}

	// collect reports
	reports := map[string][]probe.Report{}
	files, _ := filepath.Glob(filepath.Join(rdir, "*.json"))
	for _, f := range files {
		b, err := os.ReadFile(f)
		if err != nil {
			continue
		}
		var rp probe.Report
		if json.Unmarshal(b, &rp) == nil {
			reports[rp.File] = append(reports[rp.File], rp)
		}
	}
	var okFiles []string
	for _, e := range l.Entries {
		rs := reports[e.File]
		launch := e.Kind == "exec"
		if !launch {
			if len(rs) != 0 {
				add("launched-non-plugin|"+e.Kind, "%s (%s) was launched", e.File, e.Kind)
			}
			continue
		}
		if len(rs) != 1 {
			add("launch-count", "%s was launched %d times, expected exactly once", e.File, len(rs))
			continue
		}
		rp := rs[0]
		mode := modeOf(e.File)
		wantEnv := []string{"NRI_PLUGIN_IDX=" + idxOf(e.File), "NRI_PLUGIN_NAME=" + baseOf(e.File), "NRI_PLUGIN_SOCKET=3"}
		sort.Strings(wantEnv)
		if fmt.Sprint(rp.Env) != fmt.Sprint(wantEnv) {
			add("environment", "%s: environment is %v, expected exactly %v", e.File, rp.Env, wantEnv)
		}
		for fd, target := range rp.Fds {
			switch fd {
			case "0", "1", "2":
			case "3":
				if !strings.HasPrefix(target, "socket:") {
					add("descriptor-3", "%s: descriptor 3 is %s, expected the pre-connected socket", e.File, target)
				}
			default:
				add("descriptor-leak", "%s inherited descriptor %s -> %s from the runtime", e.File, fd, target)
			}
		}
		if _, ok := rp.Fds["3"]; !ok {
			add("descriptor-3", "%s: no descriptor 3", e.File)
		}
		if mode == "exit" || mode == "noreg" {
			continue
		}
		// configuration: idx-name.conf, else name.conf, else empty
		wantCfg := ""
		if c, ok := l.Dropins[e.File+".conf"]; ok {
			wantCfg = c
		} else if c, ok := l.Dropins[baseOf(e.File)+".conf"]; ok {
			wantCfg = c
		}
		if rp.Config == nil {
			add("not-configured", "%s was never configured", e.File)
		} else if *rp.Config != wantCfg {
			add("configuration", "%s received configuration %q, expected %q (drop-ins present: %v)", e.File, *rp.Config, wantCfg, keys(l.Dropins))
		}
		if mode == "ok" {
			okFiles = append(okFiles, e.File)
			if !rp.Synced {
				add("healthy-plugin-affected", "%s (healthy) was not synchronized; plugins in the directory: %v", e.File, names(l.Entries))
			}
			if rp.Events != 2 {
				add("healthy-plugin-affected", "%s (healthy) received %d of 2 events; plugins in the directory: %v", e.File, rp.Events, names(l.Entries))
			}
		}
		if (mode == "syncfail" || mode == "synchang") && rp.Events != 0 {
			add("failed-plugin-active", "%s failed its synchronization but received %d events", e.File, rp.Events)
		}
		if mode == "closeidle" && (!rp.Synced || rp.Events != 2) {
			add("healthy-plugin-affected", "%s (healthy until it leaves) was synchronized: %v, received %d of 2 events", e.File, rp.Synced, rp.Events)
		}
	}
	// invocation order of the healthy plugins: index order
	if b, err := os.ReadFile(filepath.Join(rdir, "order.log")); err == nil {
		var got []string
		for _, ln := range strings.Split(strings.TrimSpace(string(b)), "\n") {
			if modeOf(ln) == "ok" {
				got = append(got, ln)
			}
		}
		sort.Strings(okFiles)
		want := append(append([]string{}, okFiles...), okFiles...)
		if len(got) == len(want) && fmt.Sprint(got) != fmt.Sprint(want) {
			add("invocation-order", "healthy plugins were invoked in order %v, expected index order %v (twice)", got, want)
		}
	}
	// stop: nothing we launched may stay alive
	stopDone := make(chan struct{})
	go func() { r.Stop(); close(stopDone) }()
	select {
	case <-stopDone:
	case <-time.After(15 * time.Second):
		add("stop-stuck", "Stop did not return")
		return
	}
	for file, rs := range reports {
		for _, rp := range rs {
			st := "?"
			for deadline := time.Now().Add(3 * time.Second); time.Now().Before(deadline); time.Sleep(5 * time.Millisecond) {
				st = procState(rp.Pid)
				if st == "gone" || st == "Z" {
					break
				}
			}
			if st != "gone" && st != "Z" {
				add("process-survives|"+modeOf(file), "%s (pid %d) is still running (state %s) after the runtime stopped", file, rp.Pid, st)
				if p, err := os.FindProcess(rp.Pid); err == nil {
					p.Kill()
				}
			}
			if st == "Z" {
				if p, err := os.FindProcess(rp.Pid); err == nil {
					p.Wait() // reap zombies of plugins the runtime forgot to wait for (information only)
				}
			}
		}
	}
	return
}

func waitUntil(d time.Duration, f func() bool) bool {
	for deadline := time.Now().Add(d); time.Now().Before(deadline); time.Sleep(2 * time.Millisecond) {
		if f() {
			return true
		}
	}
	return f()
}

func keys(m map[string]string) []string {
	var k []string
	for x := range m {
		k = append(k, x)
	}
	sort.Strings(k)
	return k
}

func names(es []entry) []string {
	var n []string
	for _, e := range es {
		n = append(n, e.File+"("+e.Kind+")")
	}
	return n
}

func generate(thorough bool) []layout {
	var out []layout
	// drop-in selection
	for _, f := range []string{"10-ok-a", "07-ok-with-dash"} {
		for mask := 0; mask < 4; mask++ {
			d := map[string]string{}
			if mask&1 != 0 {
				d[f+".conf"] = "specific:" + f
			}
			if mask&2 != 0 {
				d[baseOf(f)+".conf"] = "generic:" + f
			}
			d["unrelated.conf"] = "unrelated"
			out = append(out, layout{Name: fmt.Sprintf("dropins-%s-%d", f, mask), Entries: []entry{{f, "exec"}}, Dropins: d})
		}
	}
	// sub-directories with executables inside: nothing in them is a plugin
	out = append(out, layout{Name: "subdir-copy", Entries: []entry{{"10-ok-a", "exec"}, {"old", "dir-with-copy"}, {"20-ok-c", "exec"}}})
	out = append(out, layout{Name: "subdir-tool", Entries: []entry{{"10-ok-a", "exec"}, {"tools", "dir-with-tool"}}})
	// an index-specific drop-in that exists but is empty still wins over the common one
	out = append(out, layout{Name: "dropins-empty-specific", Entries: []entry{{"10-ok-a", "exec"}}, Dropins: map[string]string{"10-ok-a.conf": "", "ok-a.conf": "generic:a"}})
	out = append(out, layout{Name: "dropins-empty-generic", Entries: []entry{{"10-ok-a", "exec"}}, Dropins: map[string]string{"ok-a.conf": ""}})
	// the same plugin installed at two indices: each instance gets its own index-specific drop-in, else
	// the common one
	for mask := 0; mask < 8; mask++ {
		d := map[string]string{"unrelated.conf": "unrelated"}
		if mask&1 != 0 {
			d["10-ok-a.conf"] = "specific:10"
		}
		if mask&2 != 0 {
			d["20-ok-a.conf"] = "specific:20"
		}
		if mask&4 != 0 {
			d["ok-a.conf"] = "generic:a"
		}
		out = append(out, layout{Name: fmt.Sprintf("twice-%d", mask), Entries: []entry{{"10-ok-a", "exec"}, {"20-ok-a", "exec"}}, Dropins: d})
	}
	// directory content
	pool := []entry{{"10-ok-a", "exec"}, {"05-ok-b", "exec"}, {"20-ok-c", "noexec"}, {"30-ok-d", "dir"}, {"40-ok-e", "exec"}}
	for mask := 1; mask < 32; mask++ {
		if !thorough && mask%3 != 1 && mask != 31 {
			continue
		}
		var es []entry
		for i, e := range pool {
			if mask>>uint(i)&1 == 1 {
				es = append(es, e)
			}
		}
		out = append(out, layout{Name: fmt.Sprintf("content-%02d", mask), Entries: es, Dropins: map[string]string{"ok-a.conf": "generic-a", "05-ok-b.conf": "specific-b"}})
	}
	// failure modes
	modes := []string{"exit", "noreg", "syncfail", "dielater", "hang", "garbage", "synchang", "closeidle"}
	mk := func(idx int, mode string) entry {
		k := "exec"
		if mode == "garbage" {
			k = "garbage"
		}
		return entry{fmt.Sprintf("%02d-%s-p%d", idx, mode, idx), k}
	}
	for _, m := range modes {
		out = append(out, layout{Name: "fail-" + m + "-first", Entries: []entry{mk(10, m), mk(50, "ok")}})
		out = append(out, layout{Name: "fail-" + m + "-last", Entries: []entry{mk(50, m), mk(10, "ok")}})
	}
	for i, a := range modes {
		for j, b := range modes {
			if !thorough && (i+j)%3 != 0 {
				continue
			}
			out = append(out, layout{Name: "fail-" + a + "+" + b, Entries: []entry{mk(10, a), mk(20, "ok"), mk(30, b), mk(40, "ok")}})
		}
	}
	if thorough {
		// three misbehaving plugins around two healthy ones, every vector of modes; and the healthy ones first
		for _, a := range modes {
			for _, b := range modes {
				for _, c := range modes {
					out = append(out, layout{Name: "fail-" + a + "+" + b + "+" + c, Entries: []entry{mk(10, a), mk(20, "ok"), mk(30, b), mk(40, "ok"), mk(50, c)}})
				}
				out = append(out, layout{Name: "fail-behind-" + a + "+" + b, Entries: []entry{mk(10, "ok"), mk(20, "ok"), mk(30, a), mk(40, b)}})
			}
		}
		// every failure mode with every drop-in selection for the healthy plugin behind it
		for _, m := range modes {
			for mask := 0; mask < 4; mask++ {
				d := map[string]string{"unrelated.conf": "unrelated"}
				if mask&1 != 0 {
					d["50-ok-p50.conf"] = "specific:50-ok-p50"
				}
				if mask&2 != 0 {
					d["ok-p50.conf"] = "generic:50-ok-p50"
				}
				out = append(out, layout{Name: fmt.Sprintf("fail-%s-dropins-%d", m, mask), Entries: []entry{mk(10, m), mk(50, "ok")}, Dropins: d})
			}
		}
	}
	return out
}

func main() {
	probe.MaybeRun()
	f := rep.ParseFlags()
	logrus.SetOutput(io.Discard)
	exe, err := os.Executable()
	if err != nil {
		rep.Fatal(f, "%v", err)
	}
	self = exe
	adaptation.SetPluginRegistrationTimeout(regTimeout)
	adaptation.SetPluginRequestTimeout(reqTimeout)
	res := &rep.Result{Property: f.Prop, Engine: "procs", Exhaustive: true, Bounds: map[string]any{},
		Rule:        "every configuration = (plugin directory content over executables, a non-executable, a sub-directory, a non-binary executable; drop-in files idx-name.conf / name.conf / both / none; vector of process behaviours ok, exits at once, never registers, fails synchronization, dies after synchronization, hangs in a handler) is set up in a scratch directory and started by the real runtime, which launches real processes (the harness binary acting as probe plugin); distinct = configurations, all non-trivial",
		Assumptions: []string{"registration and request timeouts 400 ms; zombies are reported as information only; executables whose names do not parse are outside the statement and not generated"}}
	if f.Replay != "" {
		b, _ := os.ReadFile(f.Replay)
		var w struct {
			Property string `json:"property"`
			Replay   layout `json:"replay"`
		}
		json.Unmarshal(b, &w)
		v, _ := runLayout(w.Replay)
		for _, m := range v {
			fmt.Println("  ", m)
		}
		if len(v) > 0 {
			fmt.Printf("VIOLATION property=%s replay=%s\n", w.Property, f.Replay)
			os.Exit(1)
		}
		fmt.Println("no violation")
		return
	}
	ls := generate(f.Thorough())
	if f.Engine == "presync" {
		// C09: the start-up synchronisation of pre-installed plugins: only the configurations in which a
		// plugin fails or never answers its synchronisation
		var keep []layout
		for _, l := range ls {
			if strings.Contains(l.Name, "syncfail") || strings.Contains(l.Name, "synchang") {
				keep = append(keep, l)
			}
		}
		ls = keep
		res.Engine = "procs/presync"
		res.Rule = "pre-installed plugins (real processes) of which one or two fail or never answer their start-up synchronisation, at every position among healthy plugins: every healthy plugin is synchronised (handed the runtime's state) exactly when it becomes active, failed ones never become active"
	}
	var mu sync.Mutex
	var wg sync.WaitGroup
	var suspects []layout
	jobs := make(chan layout, 8)
	for w := 0; w < 6; w++ {
		wg.Add(1)
		go func() {
			defer wg.Done()
			for l := range jobs {
				v, sig := runLayout(l)
				if len(v) > 0 {
					mu.Lock()
					suspects = append(suspects, l)
					mu.Unlock()
					v = nil
				}
				mu.Lock()
				res.Evaluations++
				res.States++
				res.Transitions += int64(len(l.Entries) + 2)
				if len(v) > 0 {
					res.Add(sig, strings.Join(v, "\n  ")+"\n  layout: "+l.Name+" "+fmt.Sprint(names(l.Entries)), l)
				}
				mu.Unlock()
			}
		}()
	}
	for i, l := range ls {
		if i%f.NShards == f.Shard {
			jobs <- l
		}
	}
	close(jobs)
	wg.Wait()
	// confirmation pass: alone, three failures in a row
	for _, l := range suspects {
		var v []string
		var sig string
		fails := 0
		for try := 0; try < 3; try++ {
			v, sig = runLayout(l)
			if len(v) == 0 {
				break
			}
			fails++
			time.Sleep(300 * time.Millisecond)
		}
		if fails < 3 {
			res.Notes = append(res.Notes, "not reproduced when re-executed alone: "+l.Name)
			continue
		}
		if sig == "C18|machinery" {
			res.Exhaustive = false
			continue
		}
		sig = f.Prop + strings.TrimPrefix(sig, "C18")
		res.Add(sig, strings.Join(v, "\n  ")+"\n  layout: "+l.Name+" "+fmt.Sprint(names(l.Entries)), l)
	}
	res.Distinct = res.Evaluations
	res.Bounds["configurations"] = len(ls)
	res.Sample(ls[3])
	res.Sample(ls[len(ls)-1])
	res.Write(f)
}
