package main

import (
	"context"
	"fmt"
	"sort"
	"strings"
	"sync"
	"sync/atomic"
	"time"

	"github.com/containerd/nri/pkg/adaptation"
	"github.com/containerd/nri/pkg/api"
	"github.com/containerd/nri/pkg/zzverif/vsched"

	"nriverif/lib/full"
	"nriverif/lib/rep"
)

// Engine "abandon" (C19): the plugin that issued an unsolicited update goes
// away while the runtime's callback is still running.  Whatever arrives
// next - an event from the runtime, an unsolicited update of another plugin,
// or both - must still wait for that callback: nothing may overlap with it.
//
// cases: how the requester goes away {stop, connection dropped, stays} x what arrives {event, update, both}
type abandonCase struct {
	Leave   string `json:"leave"`
	Arrives string `json:"arrives"`
}

func runAbandon(prop string, c abandonCase) (viol []string, sig string) {
	add := func(kind, f string, a ...any) {
		viol = append(viol, fmt.Sprintf(f, a...))
		if sig == "" {
			sig = prop + "|abandon|" + kind
		}
	}
	what := fmt.Sprintf("requester %s, then %s arrives", c.Leave, c.Arrives)
	rt, err := full.NewRuntime()
	if err != nil {
		return []string{"machinery: " + err.Error()}, "machinery"
	}
	defer rt.Close()
	if err := rt.Start(); err != nil {
		return []string{"machinery: " + err.Error()}, "machinery"
	}
	a, b := full.NewPlugin("10", "a"), full.NewPlugin("20", "b")
	for _, p := range []*full.Plugin{a, b} {
		if err := p.Start(rt, nil); err != nil {
			return []string{"machinery: plugin start: " + err.Error()}, "machinery"
		}
		if !p.WaitActive(rt, 8*time.Second) {
			return []string{"machinery: plugin not active"}, "machinery"
		}
	}
	defer func() {
		if b.Stub != nil {
			b.Stub.Stop()
		}
		if a.Stub != nil {
			a.Stub.Stop()
		}
	}()
	var inCb, cbRuns, overlapCb, overlapEv, evSeen int32
	entered, release := make(chan struct{}), make(chan struct{})
	rt.OnUpdate = func(us []*api.ContainerUpdate) ([]*api.ContainerUpdate, error) {
		atomic.AddInt32(&cbRuns, 1)
		if atomic.AddInt32(&inCb, 1) > 1 {
			atomic.StoreInt32(&overlapCb, 1)
		}
		defer atomic.AddInt32(&inCb, -1)
		if len(us) > 0 && us[0].ContainerId == "first" {
			close(entered)
			<-release
		}
		return nil, nil
	}
	b.EventFn = func(string, *api.PodSandbox, *api.Container) error {
		atomic.AddInt32(&evSeen, 1)
		if atomic.LoadInt32(&inCb) > 0 {
			atomic.StoreInt32(&overlapEv, 1)
		}
		return nil
	}
	ctxC := make(chan context.Context, 4)
	rt.OnUpdateCtx = func(ctx context.Context) {
		select {
		case ctxC <- ctx:
		default:
		}
	}
	firstDone := make(chan error, 1)
	go func() {
		_, err := a.Stub.UpdateContainers([]*api.ContainerUpdate{mkUpdate(0, "first", false)})
		firstDone <- err
	}()
	select {
	case <-entered:
	case <-time.After(8 * time.Second):
		close(release)
		return []string{"machinery: the callback for the first update never started"}, "machinery"
	}
	released := false
	defer func() {
		if !released {
			close(release)
		}
	}()
	switch c.Leave {
	case "stop":
		go a.Stub.Stop()
	case "drop":
		a.Conn.Close()
	}
	if c.Leave != "stays" {
		// wait until the runtime side knows that the requester is gone: the context of its request is
		// cancelled (the adaptation lock is held by the running callback, the plugin table cannot be read)
		select {
		case cctx := <-ctxC:
			select {
			case <-cctx.Done():
			case <-time.After(3 * time.Second):
			}
		default:
		}
		time.Sleep(20 * time.Millisecond)
	}
	done := make(chan string, 2)
	n := 0
	if c.Arrives == "event" || c.Arrives == "both" {
		n++
		go func() {
			rt.R.StartContainer(context.Background(), &api.StateChangeEvent{Pod: &api.PodSandbox{Id: "pod0"}, Container: &api.Container{Id: "c0"}})
			done <- "event"
		}()
	}
	if c.Arrives == "update" || c.Arrives == "both" {
		n++
		go func() {
			b.Stub.UpdateContainers([]*api.ContainerUpdate{mkUpdate(1, "second", false)})
			done <- "update"
		}()
	}
	// nothing may get through while the first callback is still running
	var early []string
	timer := time.After(250 * time.Millisecond)
wait:
	for {
		select {
		case x := <-done:
			early = append(early, x)
			n--
			if n == 0 {
				break wait
			}
		case <-timer:
			break wait
		}
	}
	sort.Strings(early)
	if len(early) > 0 {
		add("not-excluded", "%s: [%s] completed while the runtime's callback for the first update was still running", what, strings.Join(early, ","))
	}
	if atomic.LoadInt32(&overlapCb) != 0 {
		add("callbacks-overlap", "%s: two invocations of the runtime's update callback overlapped", what)
	}
	if atomic.LoadInt32(&overlapEv) != 0 {
		add("event-overlaps-callback", "%s: an event was delivered to a plugin while the runtime's update callback was running", what)
	}
	released = true
	close(release)
	for ; n > 0; n-- {
		select {
		case <-done:
		case <-time.After(8 * time.Second):
			add("stuck", "%s: the later request did not complete within 8 s after the first callback returned", what)
			return
		}
	}
	select {
	case <-firstDone:
	case <-time.After(8 * time.Second):
		add("stuck", "%s: the first UpdateContainers call did not return within 8 s after its callback returned", what)
	}
	wantCb := int32(1)
	if c.Arrives != "event" {
		wantCb = 2
	}
	if got := atomic.LoadInt32(&cbRuns); got != wantCb {
		add("callback-count", "%s: the runtime's callback ran %d times, expected %d", what, got, wantCb)
	}
	if c.Arrives != "update" && atomic.LoadInt32(&evSeen) != 1 {
		add("event-count", "%s: the event reached the remaining plugin %d times", what, atomic.LoadInt32(&evSeen))
	}
	return
}

func engineAbandon(f *rep.Flags, res *rep.Result) {
	res.Engine = "unsol/abandon"
	res.Rule = "the requester of an unsolicited update {stops, loses its connection, stays} while the runtime's callback is still running x what arrives next {an event from the runtime, another plugin's unsolicited update, both}: nothing completes, no second callback starts and no event is delivered until the first callback has returned; afterwards everything completes exactly once"
	var cases []abandonCase
	for _, l := range []string{"stop", "drop", "stays"} {
		for _, a := range []string{"event", "update", "both"} {
			cases = append(cases, abandonCase{l, a})
		}
	}
	for i, c := range cases {
		if i%f.NShards != f.Shard {
			continue
		}
		var v []string
		var sig string
		fails := 0
		for try := 0; try < 3; try++ {
			v, sig = runAbandon(f.Prop, c)
			if len(v) == 0 {
				break
			}
			fails++
			time.Sleep(100 * time.Millisecond)
		}
		res.Evaluations++
		res.States += 5
		res.Transitions += 4
		switch {
		case fails == 0:
		case fails < 3:
			res.Notes = append(res.Notes, fmt.Sprintf("not reproduced three times in a row: %+v: %s", c, v))
		case sig == "machinery":
			res.Exhaustive = false
			res.Notes = append(res.Notes, fmt.Sprintf("case skipped: %+v: %s", c, v[0]))
		default:
			res.Add(sig, strings.Join(v, "\n  "), map[string]any{"engine": "abandon", "abandon": c})
		}
	}
	res.Distinct = res.Evaluations
	res.Bounds["cases"] = len(cases)
	res.Sample(map[string]any{"case": cases[1], "expect": "plugin b's update waits for the callback of the departed plugin a"})
}

// Engine "restart" (C19): unsolicited updates on a stub that was stopped and
// started again.  The connection-closed notification of the earlier session
// is asynchronous: it is delivered as it comes, or held at the build-time gate
// until the new session is up and then released.  In every session an update
// must reach the runtime's callback exactly once, unchanged.
func runRestart(prop string, held bool, sessions int) (viol []string, sig string) {
	add := func(kind, f string, a ...any) {
		viol = append(viol, fmt.Sprintf(f, a...))
		if sig == "" {
			sig = prop + "|restart|" + kind
		}
	}
	mode := map[bool]string{false: "notification as it comes", true: "notification held until the next session is up"}[held]
	rt, err := full.NewRuntime()
	if err != nil {
		return []string{"machinery: " + err.Error()}, "machinery"
	}
	defer rt.Close()
	if err := rt.Start(); err != nil {
		return []string{"machinery: " + err.Error()}, "machinery"
	}
	var seen int32
	rt.OnUpdate = func(us []*api.ContainerUpdate) ([]*api.ContainerUpdate, error) {
		if len(us) == 1 && us[0].ContainerId == "u" {
			atomic.AddInt32(&seen, 1)
		}
		return nil, nil
	}
	pl := full.NewPlugin("10", "re")
	var gmu sync.Mutex
	var heldC []chan struct{}
	gating := false
	var reached int32
	vsched.SetGate("stub.connClosed", func(obj any) {
		if pl.Stub == nil || obj != any(pl.Stub) {
			return
		}
		gmu.Lock()
		if !gating {
			gmu.Unlock()
			return
		}
		ch := make(chan struct{})
		heldC = append(heldC, ch)
		gmu.Unlock()
		atomic.AddInt32(&reached, 1)
		<-ch
	})
	defer func() {
		gmu.Lock()
		gating = false
		for _, ch := range heldC {
			close(ch)
		}
		heldC = nil
		gmu.Unlock()
		if pl.Stub != nil {
			pl.Stub.Stop()
		}
	}()
	gmu.Lock()
	gating = held
	gmu.Unlock()
	for s := 1; s <= sessions; s++ {
		what := fmt.Sprintf("%s, session %d", mode, s)
		var err error
		if s == 1 {
			err = pl.StartDial(rt)
		} else {
			err = pl.Restart()
		}
		if err != nil {
			add("start-failed", "%s: Start failed: %v", what, err)
			return
		}
		if held && s > 1 {
			// the earlier session's notification is at the gate by now (or arrives there): release it
			want := int32(s - 1)
			for deadline := time.Now().Add(3 * time.Second); time.Now().Before(deadline) && atomic.LoadInt32(&reached) < want; time.Sleep(time.Millisecond) {
			}
			gmu.Lock()
			for _, ch := range heldC {
				close(ch)
			}
			heldC = nil
			gmu.Unlock()
			time.Sleep(10 * time.Millisecond)
		}
		before := atomic.LoadInt32(&seen)
		done := make(chan error, 1)
		go func() {
			_, err := pl.Stub.UpdateContainers([]*api.ContainerUpdate{mkUpdate(0, "u", false)})
			done <- err
		}()
		select {
		case err := <-done:
			if err != nil {
				add("update-fails-after-restart", "%s: UpdateContainers on the started stub returned %v", what, err)
				return
			}
		case <-time.After(8 * time.Second):
			add("update-stuck", "%s: UpdateContainers did not return", what)
			return
		}
		if got := atomic.LoadInt32(&seen) - before; got != 1 {
			add("callback-count", "%s: the runtime's callback ran %d times for one update", what, got)
			return
		}
		if !held {
			// give a late notification of the previous session a chance to arrive, then try again
			time.Sleep(15 * time.Millisecond)
			before = atomic.LoadInt32(&seen)
			if _, err := pl.Stub.UpdateContainers([]*api.ContainerUpdate{mkUpdate(0, "u", false)}); err != nil {
				add("update-fails-after-restart", "%s: a second UpdateContainers returned %v", what, err)
				return
			}
			if got := atomic.LoadInt32(&seen) - before; got != 1 {
				add("callback-count", "%s: the runtime's callback ran %d times for one update", what, got)
				return
			}
		}
		pl.Stub.Stop()
	}
	return
}

func engineRestart(f *rep.Flags, res *rep.Result) {
	res.Engine = "unsol/restart"
	res.Rule = "a stub is started, stopped and started again (4 sessions; thorough 12) with the connection-closed notification of each earlier session delivered as it comes or held at the gate until the next session is up; in every session an unsolicited update reaches the runtime's callback exactly once and UpdateContainers returns no error"
	sessions := 4
	if f.Thorough() {
		sessions = 12
	}
	for i, held := range []bool{false, true} {
		if i%f.NShards != f.Shard {
			continue
		}
		var v []string
		var sig string
		fails := 0
		for try := 0; try < 3; try++ {
			v, sig = runRestart(f.Prop, held, sessions)
			if len(v) == 0 {
				break
			}
			fails++
			time.Sleep(100 * time.Millisecond)
		}
		res.Evaluations++
		res.States += int64(sessions)
		res.Transitions += int64(3 * sessions)
		switch {
		case fails == 0:
		case fails < 3:
			res.Notes = append(res.Notes, fmt.Sprintf("not reproduced three times in a row: held=%v: %s", held, v))
		case sig == "machinery":
			res.Exhaustive = false
			res.Notes = append(res.Notes, fmt.Sprintf("case skipped: held=%v: %s", held, v[0]))
		default:
			res.Add(sig, strings.Join(v, "\n  "), map[string]any{"engine": "restart", "held": held})
		}
	}
	res.Distinct = res.Evaluations
	res.Bounds["sessions"] = sessions
}

// Engine "phases" (C19): an unsolicited update issued by a registered plugin
// at every point of its life from which it can be issued: from inside its
// Configure handler (registered, Start has not returned yet), from inside its
// Synchronize handler, right after Start returned, from inside an event
// handler is excluded (the relay needs the lock the event holds).  Each must
// reach the callback once and return no error.
func runPhase(prop, phase string) (viol []string, sig string) {
	add := func(kind, f string, a ...any) {
		viol = append(viol, fmt.Sprintf(f, a...))
		if sig == "" {
			sig = prop + "|phases|" + kind
		}
	}
	rt, err := full.NewRuntime()
	if err != nil {
		return []string{"machinery: " + err.Error()}, "machinery"
	}
	defer rt.Close()
	if err := rt.Start(); err != nil {
		return []string{"machinery: " + err.Error()}, "machinery"
	}
	var seen int32
	rt.OnUpdate = func(us []*api.ContainerUpdate) ([]*api.ContainerUpdate, error) {
		if len(us) == 1 && us[0].ContainerId == "u-"+phase {
			atomic.AddInt32(&seen, 1)
		}
		return nil, nil
	}
	pl := full.NewPlugin("10", "ph")
	type res struct{ err error }
	resC := make(chan res, 1)
	issue := func() {
		done := make(chan error, 1)
		go func() {
			_, err := pl.Stub.UpdateContainers([]*api.ContainerUpdate{mkUpdate(0, "u-"+phase, false)})
			done <- err
		}()
		select {
		case err := <-done:
			resC <- res{err}
		case <-time.After(8 * time.Second):
			resC <- res{fmt.Errorf("UpdateContainers did not return within 8 s")}
		}
	}
	switch phase {
	case "configure":
		pl.ConfFn = func(string, string, string) (api.EventMask, error) { issue(); return 0, nil }
	case "synchronize":
		pl.SyncFn = func([]*api.PodSandbox, []*api.Container) ([]*api.ContainerUpdate, error) { issue(); return nil, nil }
	}
	defer func() {
		if pl.Stub != nil {
			pl.Stub.Stop()
		}
	}()
	// StartDial creates pl.Stub inside; the handlers above need it: create the stub first
	if err := pl.Prepare(rt); err != nil {
		return []string{"machinery: " + err.Error()}, "machinery"
	}
	if err := pl.Restart(); err != nil {
		add("start-failed", "phase %s: Start failed: %v", phase, err)
		return
	}
	if phase == "started" {
		issue()
	}
	select {
	case r := <-resC:
		if r.err != nil {
			add("update-fails", "an update issued by a registered plugin %s returned %v", phaseText(phase), r.err)
			return
		}
	case <-time.After(15 * time.Second):
		add("machinery", "phase %s: the handler issuing the update never ran", phase)
		sig = "machinery"
		return
	}
	if got := atomic.LoadInt32(&seen); got != 1 {
		add("callback-count", "an update issued %s reached the runtime's callback %d times", phaseText(phase), got)
	}
	return
}

func phaseText(p string) string {
	switch p {
	case "configure":
		return "from inside its Configure handler (registered, Start not yet returned)"
	case "synchronize":
		return "from inside its Synchronize handler"
	}
	return "right after Start returned"
}

// Engine "queued" (C19): an update that has to wait - behind another plugin's
// slow callback, or behind a runtime request whose handlers are slow - for
// longer than the plugin request timeout is still delivered, once.
func runQueued(prop, behind string, to time.Duration) (viol []string, sig string) {
	add := func(kind, f string, a ...any) {
		viol = append(viol, fmt.Sprintf(f, a...))
		if sig == "" {
			sig = prop + "|queued|" + kind
		}
	}
	adaptation.SetPluginRequestTimeout(to)
	defer adaptation.SetPluginRequestTimeout(5 * time.Second)
	rt, err := full.NewRuntime()
	if err != nil {
		return []string{"machinery: " + err.Error()}, "machinery"
	}
	defer rt.Close()
	if err := rt.Start(); err != nil {
		return []string{"machinery: " + err.Error()}, "machinery"
	}
	a, b := full.NewPlugin("10", "qa"), full.NewPlugin("20", "qb")
	for _, p := range []*full.Plugin{a, b} {
		if err := p.Start(rt, nil); err != nil {
			return []string{"machinery: " + err.Error()}, "machinery"
		}
		if !p.WaitActive(rt, 8*time.Second) {
			return []string{"machinery: plugin not active"}, "machinery"
		}
	}
	defer func() { b.Stub.Stop(); a.Stub.Stop() }()
	var second int32
	entered := make(chan struct{}, 1)
	hold := time.Duration(float64(to) * 0.7) // each step stays below the timeout; together they exceed it
	rt.OnUpdate = func(us []*api.ContainerUpdate) ([]*api.ContainerUpdate, error) {
		if len(us) == 1 && us[0].ContainerId == "slow" {
			entered <- struct{}{}
			time.Sleep(2 * hold)
		}
		if len(us) == 1 && us[0].ContainerId == "queued" {
			atomic.AddInt32(&second, 1)
		}
		return nil, nil
	}
	slowEv := func(string, *api.PodSandbox, *api.Container) error {
		select {
		case entered <- struct{}{}:
		default:
		}
		time.Sleep(hold)
		return nil
	}
	firstDone := make(chan struct{})
	switch behind {
	case "callback":
		go func() {
			a.Stub.UpdateContainers([]*api.ContainerUpdate{mkUpdate(0, "slow", false)})
			close(firstDone)
		}()
	case "request":
		a.EventFn, b.EventFn = slowEv, slowEv // two handlers of 0.7 x timeout each: 1.4 x in total
		go func() {
			rt.R.StartContainer(context.Background(), &api.StateChangeEvent{Pod: &api.PodSandbox{Id: "pod0"}, Container: &api.Container{Id: "c0"}})
			close(firstDone)
		}()
	}
	select {
	case <-entered:
	case <-time.After(8 * time.Second):
		return []string{"machinery: the slow step never started"}, "machinery"
	}
	errC := make(chan error, 1)
	go func() {
		_, err := b.Stub.UpdateContainers([]*api.ContainerUpdate{mkUpdate(1, "queued", false)})
		errC <- err
	}()
	what := fmt.Sprintf("an update queued behind a slow %s for longer than the %v request timeout", behind, to)
	select {
	case err := <-errC:
		if err != nil {
			add("queued-update-fails", "%s returned %v", what, err)
		}
	case <-time.After(6*to + 8*time.Second):
		add("queued-update-stuck", "%s did not return", what)
	}
	<-firstDone
	if got := atomic.LoadInt32(&second); got != 1 && len(viol) == 0 {
		add("callback-count", "%s reached the runtime's callback %d times", what, got)
	}
	return
}

func enginePhasesQueued(f *rep.Flags, res *rep.Result) {
	res.Engine = "unsol/" + f.Engine
	type job struct {
		kind, arg string
	}
	var jobs []job
	if f.Engine == "phases" {
		res.Rule = "an unsolicited update issued from inside the plugin's Configure handler, from inside its Synchronize handler, and right after Start returned: each reaches the runtime's callback exactly once and returns no error"
		for _, p := range []string{"configure", "synchronize", "started"} {
			jobs = append(jobs, job{"phase", p})
		}
	} else {
		res.Rule = "an unsolicited update that waits behind another plugin's slow callback / behind a runtime request with slow handlers for longer than the plugin request timeout (300 ms) is delivered exactly once and returns no error; a failing case is repeated with timeouts x2 and x4"
		for _, b := range []string{"callback", "request"} {
			jobs = append(jobs, job{"queued", b})
		}
	}
	for i, j := range jobs {
		if i%f.NShards != f.Shard {
			continue
		}
		var v []string
		var sig string
		fails := 0
		for try := 0; try < 3; try++ {
			if j.kind == "phase" {
				v, sig = runPhase(f.Prop, j.arg)
			} else {
				v, sig = runQueued(f.Prop, j.arg, time.Duration(300*(1<<try))*time.Millisecond)
			}
			if len(v) == 0 {
				break
			}
			fails++
			time.Sleep(100 * time.Millisecond)
		}
		res.Evaluations++
		res.States += 3
		res.Transitions += 3
		switch {
		case fails == 0:
		case fails < 3:
			res.Notes = append(res.Notes, fmt.Sprintf("not reproduced three times in a row: %+v: %s", j, v))
		case sig == "machinery":
			res.Exhaustive = false
			res.Notes = append(res.Notes, fmt.Sprintf("case skipped: %+v: %s", j, v[0]))
		default:
			res.Add(sig, strings.Join(v, "\n  "), map[string]any{"engine": f.Engine, "case": j.arg})
		}
	}
	res.Distinct = res.Evaluations
	res.Bounds["cases"] = len(jobs)
}
