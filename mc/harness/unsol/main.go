// Harness "unsol": content of unsolicited container updates through the
// full stack (real stub -> mux -> ttrpc -> real adaptation -> runtime
// callback and back). The mutual-exclusion half of C19 is explored by the
// schedule scenarios of the "adapt" harness.
package main

import (
	"errors"
	"fmt"
	"io"
	"os"
	"strings"
	"time"

	"github.com/containerd/nri/pkg/api"
	"github.com/containerd/nri/pkg/stub"
	"github.com/sirupsen/logrus"
	"google.golang.org/protobuf/proto"

	"nriverif/lib/full"
	"nriverif/lib/rep"
)

func mkUpdate(kind int, id string, ignore bool) *api.ContainerUpdate {
	u := &api.ContainerUpdate{ContainerId: id, IgnoreFailure: ignore}
	switch kind {
	case 0:
		u.SetLinuxMemoryLimit(1 << 30)
		u.SetLinuxMemorySwap(0)
	case 1:
		u.SetLinuxCPUShares(512)
		u.SetLinuxCPUSetCPUs("0-3")
	case 2:
		u.AddLinuxHugepageLimit("2MB", 16)
		u.AddLinuxUnified("memory.high", "max")
	case 3:
		u.SetLinuxPidLimits(0)
		u.SetLinuxBlockIOClass("gold")
		u.SetLinuxRDTClass("")
	case 4:
		// an update with no resources at all
	}
	return u
}

func eqLists(a, b []*api.ContainerUpdate) bool {
	if len(a) != len(b) {
		return false
	}
	for i := range a {
		if !proto.Equal(a[i], b[i]) {
			return false
		}
	}
	return true
}

func main() {
	f := rep.ParseFlags()
	res := &rep.Result{Property: f.Prop, Engine: "unsol", Exhaustive: true, Bounds: map[string]any{},
		Rule:        "every update list of length 0-3 over 5 update shapes (memory, CPU, hugepages+unified, pids+classes, empty) with ignore-failure on every subset of entries (lists of length <= 2 exhaustively, length 3 for a rotating selection) x callback results {every subset of the list as failed list} x {no error, error}; distinct = (list, callback result) pairs, all non-trivial",
		Assumptions: []string{"full stack in one process over a real unix socket; schedules underneath are free-running"}}
	if f.Replay != "" {
		fmt.Println("replay: re-running the deterministic enumeration")
	}
	if f.Engine == "abandon" || f.Engine == "restart" || f.Engine == "phases" || f.Engine == "queued" {
		logrus.SetOutput(io.Discard)
		switch f.Engine {
		case "abandon":
			engineAbandon(f, res)
		case "restart":
			engineRestart(f, res)
		default:
			enginePhasesQueued(f, res)
		}
		if f.Replay != "" {
			for _, x := range res.Findings {
				fmt.Printf("FINDING %s: %s\n", x.Signature, x.Message)
			}
			if len(res.Findings) > 0 {
				fmt.Printf("VIOLATION property=%s replay=%s\n", f.Prop, f.Replay)
				os.Exit(1)
			}
			fmt.Println("no violation")
			return
		}
		res.Write(f)
		return
	}
	fail := func(sig, m string, a ...any) {
		res.Add(f.Prop+"|unsol|"+sig, fmt.Sprintf(m, a...), map[string]any{"signature": sig})
	}
	// a stub that was never started
	{
		pl := full.NewPlugin("10", "never")
		st, err := stub.New(pl, stub.WithPluginName("never"), stub.WithPluginIdx("10"))
		if err != nil {
			rep.Fatal(f, "%v", err)
		}
		done := make(chan error, 1)
		go func() {
			_, err := st.UpdateContainers([]*api.ContainerUpdate{mkUpdate(0, "x", false)})
			done <- err
		}()
		select {
		case err := <-done:
			if !errors.Is(err, stub.ErrNoService) {
				fail("not-started", "UpdateContainers on a stub that was never started returned %v, expected ErrNoService", err)
			}
		case <-time.After(5 * time.Second):
			fail("not-started-blocks", "UpdateContainers on a stub that was never started blocks")
		}
		res.Evaluations++
	}
	rt, err := full.NewRuntime()
	if err != nil {
		rep.Fatal(f, "%v", err)
	}
	defer rt.Close()
	if err := rt.Start(); err != nil {
		rep.Fatal(f, "%v", err)
	}
	pl := full.NewPlugin("10", "unsol")
	if err := pl.Start(rt, nil); err != nil {
		rep.Fatal(f, "plugin start: %v", err)
	}
	if !pl.WaitActive(rt, 5*time.Second) {
		rep.Fatal(f, "plugin did not become active")
	}
	var seen [][]*api.ContainerUpdate
	var cbFailed []*api.ContainerUpdate
	var cbErr error
	rt.OnUpdate = func(us []*api.ContainerUpdate) ([]*api.ContainerUpdate, error) {
		seen = append(seen, us)
		return cbFailed, cbErr
	}
	// update lists
	var lists [][]*api.ContainerUpdate
	lists = append(lists, nil)
	type ent struct {
		kind   int
		ignore bool
	}
	var ents []ent
	for k := 0; k < 5; k++ {
		ents = append(ents, ent{k, false}, ent{k, true})
	}
	for _, a := range ents {
		lists = append(lists, []*api.ContainerUpdate{mkUpdate(a.kind, "c1", a.ignore)})
	}
	for _, a := range ents {
		for _, b := range ents {
			lists = append(lists, []*api.ContainerUpdate{mkUpdate(a.kind, "c1", a.ignore), mkUpdate(b.kind, "c2", b.ignore)})
		}
	}
	for i, a := range ents {
		b, c := ents[(i+3)%len(ents)], ents[(i+7)%len(ents)]
		lists = append(lists, []*api.ContainerUpdate{mkUpdate(a.kind, "c1", a.ignore), mkUpdate(b.kind, "c1", b.ignore), mkUpdate(c.kind, "c3", c.ignore)})
	}
	n := 0
	for _, l := range lists {
		// callback results: nil, every subset as failed list, an error
		for sub := 0; sub < 2<<len(l); sub++ {
			cbFailed, cbErr = nil, nil
			var desc string
			for i := range l {
				if sub>>uint(i)&1 == 1 {
					cbFailed = append(cbFailed, l[i])
				}
			}
			desc = fmt.Sprintf("failed=%d/%d", len(cbFailed), len(l))
			if sub>>uint(len(l))&1 == 1 {
				cbErr = errors.New("runtime refuses the update 4711")
				desc += "+error"
			}
			seen = nil
			failed, err := pl.Stub.UpdateContainers(l)
			res.Evaluations++
			n++
			var ign []string
			for _, u := range l {
				ign = append(ign, fmt.Sprint(u.IgnoreFailure))
			}
			caseDesc := fmt.Sprintf("list of %d updates (ignore-failure: %s), callback result %s", len(l), strings.Join(ign, ","), desc)
			if len(seen) != 1 {
				fail("callback-count", "the runtime callback ran %d times for one request; %s", len(seen), caseDesc)
				continue
			}
			if !eqLists(seen[0], l) {
				fail("updates-changed", "the callback saw %v, the plugin sent %v; %s", seen[0], l, caseDesc)
			}
			if cbErr != nil {
				if err == nil || !strings.Contains(err.Error(), "runtime refuses the update 4711") {
					fail("callback-error-lost", "the callback's error did not reach the plugin (err=%v); %s", err, caseDesc)
				}
				continue
			}
			if err != nil {
				fail("spurious-error", "UpdateContainers returned %v; %s", err, caseDesc)
				continue
			}
			if !eqLists(failed, cbFailed) {
				fail("failed-list-changed", "the callback reported %d failed updates, the plugin got %d: %v; %s", len(cbFailed), len(failed), failed, caseDesc)
			}
		}
	}
	res.States = int64(len(lists))
	res.Transitions = int64(n)
	res.Distinct = int64(n)
	res.Bounds["update_lists"] = len(lists)
	res.Bounds["round_trips"] = n
	res.Sample(map[string]any{"updates": "[memory(c1, ignore-failure), pids+classes(c2)]", "callback": "failed = [first]", "expect": "callback sees both unchanged once; plugin gets exactly [first]"})
	pl.Stub.Stop()
	if f.Replay != "" {
		if len(res.Findings) > 0 {
			for _, x := range res.Findings {
				fmt.Printf("FINDING %s: %s\n", x.Signature, x.Message)
			}
			fmt.Printf("VIOLATION property=%s replay=%s\n", f.Prop, f.Replay)
			os.Exit(1)
		}
		fmt.Println("no violation")
		return
	}
	res.Write(f)
}
