// Harness "faults": failing plugins (C07).
//
// engines:
//
//	answers  every vector of per-plugin answers (ok / handler errors / transport error classes)
//	         for up to 3 plugins x 13 request types x two consecutive requests, at the plugin seam
//	cuts     full stack (real stubs, real mux + ttrpc over unix sockets): the victim's trunk is cut
//	         after every byte offset of the request and of the response, in every victim position;
//	         plus stub stopped before/inside/after the handler, handler hanging past the request
//	         timeout, black-holed connection, deliberate handler error
package main

import (
	"bytes"
	"context"
	"encoding/binary"
	"encoding/json"
	"errors"
	"fmt"
	"github.com/sirupsen/logrus"
	"io"
	"net"
	"os"
	"runtime"
	"sort"
	"strings"
	"sync"
	"sync/atomic"
	"time"

	"github.com/containerd/nri/pkg/adaptation"
	"github.com/containerd/nri/pkg/api"
	"github.com/containerd/nri/pkg/zzverif/vsched"
	"github.com/containerd/ttrpc"
	"google.golang.org/grpc/codes"
	"google.golang.org/grpc/status"

	"nriverif/lib/full"
	"nriverif/lib/rep"
	"nriverif/lib/seam"
)

var ctx = context.Background()
var pod = &api.PodSandbox{Id: "pod0", Name: "pod0"}

func ctr(id string) *api.Container { return &api.Container{Id: id, PodSandboxId: "pod0", Name: id} }

type answer struct {
	name  string
	err   error
	fatal bool
}

var answers = []answer{
	{"ok", nil, false},
	{"handler:plain", errors.New("handler refuses"), false},
	{"handler:status-unknown", status.Error(codes.Unknown, "handler refuses"), false},
	{"handler:status-unavailable", status.Error(codes.Unavailable, "handler refuses: unavailable"), false},
	{"handler:status-deadline", status.Error(codes.DeadlineExceeded, "handler refuses: deadline"), false},
	{"handler:status-invalid", status.Error(codes.InvalidArgument, "handler refuses: invalid"), false},
	{"fatal:closed", ttrpc.ErrClosed, true},
	{"fatal:server-closed", ttrpc.ErrServerClosed, true},
	{"fatal:protocol", ttrpc.ErrProtocol, true},
	{"fatal:deadline", context.DeadlineExceeded, true},
	{"fatal:wrapped-closed", fmt.Errorf("call failed: %w", ttrpc.ErrClosed), true},
	{"fatal:wrapped-deadline", fmt.Errorf("call failed: %w", context.DeadlineExceeded), true},
}

type lifecycle struct {
	name string
	call func(r *adaptation.Adaptation, id string) (map[string]string, []*api.ContainerUpdate, bool, error)
}

func evt(id string) *api.StateChangeEvent { return &api.StateChangeEvent{Pod: pod, Container: ctr(id)} }

func ev(f func(r *adaptation.Adaptation, e *api.StateChangeEvent) error) func(r *adaptation.Adaptation, id string) (map[string]string, []*api.ContainerUpdate, bool, error) {
	return func(r *adaptation.Adaptation, id string) (map[string]string, []*api.ContainerUpdate, bool, error) {
		err := f(r, evt(id))
		return nil, nil, err == nil, err
	}
}

// podEv: pod-level events carry no container, as a runtime sends them
func podEv(f func(r *adaptation.Adaptation, e *api.StateChangeEvent) error) func(r *adaptation.Adaptation, id string) (map[string]string, []*api.ContainerUpdate, bool, error) {
	return func(r *adaptation.Adaptation, id string) (map[string]string, []*api.ContainerUpdate, bool, error) {
		err := f(r, &api.StateChangeEvent{Pod: pod})
		return nil, nil, err == nil, err
	}
}

var calls = []lifecycle{
	{"CreateContainer", func(r *adaptation.Adaptation, id string) (map[string]string, []*api.ContainerUpdate, bool, error) {
		rpl, err := r.CreateContainer(ctx, &api.CreateContainerRequest{Pod: pod, Container: ctr(id)})
		return rpl.GetAdjust().GetAnnotations(), rpl.GetUpdate(), rpl != nil, err
	}},
	{"UpdateContainer", func(r *adaptation.Adaptation, id string) (map[string]string, []*api.ContainerUpdate, bool, error) {
		rpl, err := r.UpdateContainer(ctx, &api.UpdateContainerRequest{Pod: pod, Container: ctr(id), LinuxResources: &api.LinuxResources{}})
		return nil, rpl.GetUpdate(), rpl != nil, err
	}},
	{"StopContainer", func(r *adaptation.Adaptation, id string) (map[string]string, []*api.ContainerUpdate, bool, error) {
		rpl, err := r.StopContainer(ctx, &api.StopContainerRequest{Pod: pod, Container: ctr(id)})
		return nil, rpl.GetUpdate(), rpl != nil, err
	}},
	{"StartContainer", ev(func(r *adaptation.Adaptation, e *api.StateChangeEvent) error { return r.StartContainer(ctx, e) })},
	{"UpdatePodSandbox", func(r *adaptation.Adaptation, id string) (map[string]string, []*api.ContainerUpdate, bool, error) {
		rpl, err := r.UpdatePodSandbox(ctx, &api.UpdatePodSandboxRequest{Pod: pod})
		return nil, nil, rpl != nil, err
	}},
	{"RunPodSandbox", podEv(func(r *adaptation.Adaptation, e *api.StateChangeEvent) error { return r.RunPodSandbox(ctx, e) })},
	{"StopPodSandbox", podEv(func(r *adaptation.Adaptation, e *api.StateChangeEvent) error { return r.StopPodSandbox(ctx, e) })},
	{"RemovePodSandbox", podEv(func(r *adaptation.Adaptation, e *api.StateChangeEvent) error { return r.RemovePodSandbox(ctx, e) })},
	{"PostUpdatePodSandbox", podEv(func(r *adaptation.Adaptation, e *api.StateChangeEvent) error { return r.PostUpdatePodSandbox(ctx, e) })},
	{"PostCreateContainer", ev(func(r *adaptation.Adaptation, e *api.StateChangeEvent) error { return r.PostCreateContainer(ctx, e) })},
	{"PostStartContainer", ev(func(r *adaptation.Adaptation, e *api.StateChangeEvent) error { return r.PostStartContainer(ctx, e) })},
	{"PostUpdateContainer", ev(func(r *adaptation.Adaptation, e *api.StateChangeEvent) error { return r.PostUpdateContainer(ctx, e) })},
	{"RemoveContainer", ev(func(r *adaptation.Adaptation, e *api.StateChangeEvent) error { return r.RemoveContainer(ctx, e) })},
}

// contribution of plugin p to a request on container id
func contribResp(method string, p int, id string) any {
	tagU := func() []*api.ContainerUpdate {
		u := &api.ContainerUpdate{ContainerId: fmt.Sprintf("other%d", p)}
		u.SetLinuxMemoryLimit(int64(1000 + p))
		return []*api.ContainerUpdate{u}
	}
	switch method {
	case "CreateContainer":
		a := &api.ContainerAdjustment{}
		a.AddAnnotation(fmt.Sprintf("p%d", p), id)
		return &api.CreateContainerResponse{Adjust: a, Update: tagU()}
	case "UpdateContainer":
		return &api.UpdateContainerResponse{Update: tagU()}
	case "StopContainer":
		return &api.StopContainerResponse{Update: tagU()}
	case "UpdatePodSandbox":
		return &api.UpdatePodSandboxResponse{}
	}
	return &api.Empty{}
}

func updTargets(us []*api.ContainerUpdate) []string {
	var out []string
	for _, u := range us {
		if u != nil {
			out = append(out, fmt.Sprintf("%s=%d", u.ContainerId, u.GetLinux().GetResources().GetMemory().GetLimit().GetValue()))
		}
	}
	sort.Strings(out)
	return out
}

// ---- engine answers ---------------------------------------------------

func engineAnswers(f *rep.Flags, res *rep.Result) {
	maxN := 3
	nA := len(answers)
	type job struct {
		n   int
		vec []int
	}
	jobs := make(chan job, 256)
	var mu sync.Mutex
	var wg sync.WaitGroup
	for w := 0; w < runtime.NumCPU(); w++ {
		wg.Add(1)
		go func() {
			defer wg.Done()
			for j := range jobs {
				for ci, lc := range calls {
					if !f.Thorough() && ci >= 5 && (j.vec[0]+ci)%3 != 0 {
						continue // quick: every request type with a third of the vectors
					}
					v, sig, steps := runAnswerCase(j.n, j.vec, lc)
					mu.Lock()
					res.Evaluations++
					res.States += int64(steps + 1)
					res.Transitions += int64(steps)
					nonok := 0
					for _, a := range j.vec {
						if a != 0 {
							nonok++
						}
					}
					if nonok > 0 {
						res.Distinct++
					}
					if len(v) > 0 {
						var names []string
						for _, a := range j.vec {
							names = append(names, answers[a].name)
						}
						res.Add(sig, strings.Join(v, "\n  ")+fmt.Sprintf("\n  case: %s answers=%v", lc.name, names), map[string]any{"engine": "answers", "call": lc.name, "answers": names})
					}
					mu.Unlock()
				}
			}
		}()
	}
	for n := 1; n <= maxN; n++ {
		vec := make([]int, n)
		var rec func(i int)
		rec = func(i int) {
			if i == n {
				jobs <- job{n, append([]int(nil), vec...)}
				return
			}
			for a := 0; a < nA; a++ {
				vec[i] = a
				rec(i + 1)
			}
		}
		rec(0)
	}
	close(jobs)
	wg.Wait()
	res.Bounds["answers"] = nA
	res.Bounds["max_plugins"] = maxN
	res.Bounds["request_types"] = len(calls)
	res.Sample(map[string]any{"call": "CreateContainer", "answers": []string{"ok", "fatal:wrapped-deadline", "handler:status-unavailable"}, "expect": "P1 dropped; request vetoed by P2's error; nothing returned; second request skips P1"})
}

func runAnswerCase(n int, vec []int, lc lifecycle) (viol []string, sig string, steps int) {
	env, err := seam.NewEnv()
	if err != nil {
		return []string{err.Error()}, "C07|machinery", 0
	}
	var invoked []int
	round := 0
	vps := make([]*adaptation.VerifPlugin, n)
	var pipes []net.Conn
	for p := 0; p < n; p++ {
		p := p
		a, b := net.Pipe()
		pipes = append(pipes, a, b)
		fk := &seam.Fake{Pos: p, Idx: seam.StdIdx(p), Base: fmt.Sprintf("f%d", p)}
		fk.H = func(_ *seam.Fake, method string, req any) (any, error) {
			invoked = append(invoked, p)
			steps++
			ans := answers[vec[p]]
			if round == 1 {
				ans = answers[0]
			}
			if ans.err != nil {
				return nil, ans.err
			}
			id := "c1"
			if round == 1 {
				id = "c2"
			}
			return contribResp(method, p, id), nil
		}
		vp, err := adaptation.VerifConnectedPlugin(env.R, a, fk.Idx, fk.Base, api.ValidEvents, fk)
		if err != nil {
			return []string{err.Error()}, "C07|machinery", 0
		}
		vps[p] = vp
		adaptation.VerifActivate(env.R, vp)
	}
	defer func() {
		for _, vp := range vps {
			vp.Close()
		}
		for _, c := range pipes {
			c.Close()
		}
	}()
	add := func(kind, f string, a ...any) {
		viol = append(viol, fmt.Sprintf(f, a...))
		if sig == "" {
			sig = "C07|answers|" + kind + "|" + lc.name
		}
	}
	// model
	var expInv []int
	var expErr error
	alive := make([]bool, n)
	for p := 0; p < n; p++ {
		alive[p] = true
	}
	for p := 0; p < n; p++ {
		expInv = append(expInv, p)
		a := answers[vec[p]]
		if a.err == nil {
			continue
		}
		if a.fatal {
			alive[p] = false
			continue
		}
		expErr = a.err
		break
	}
	var annot map[string]string
	var ups []*api.ContainerUpdate
	var gotResp bool
	var gerr error
	func() {
		defer func() {
			if p := recover(); p != nil {
				add("panic", "request panicked: %v", p)
			}
		}()
		annot, ups, gotResp, gerr = lc.call(env.R, "c1")
	}()
	if len(viol) > 0 {
		return
	}
	if fmt.Sprint(invoked) != fmt.Sprint(expInv) {
		add("invocation", "plugins invoked %v, expected %v", invoked, expInv)
	}
	if expErr != nil {
		if gerr == nil {
			add("veto-lost", "a handler error (%v) did not fail the request", expErr)
		} else if !strings.Contains(gerr.Error(), strings.TrimPrefix(expErr.Error(), "rpc error: ")) && gerr != expErr {
			add("veto-wrong-error", "request failed with %v, expected the handler's error %v", gerr, expErr)
		}
		if gotResp {
			add("partial-result", "request failed but a response was returned")
		}
	} else {
		if gerr != nil {
			add("transport-error-fails-request", "request failed with %v although every failing plugin failed with a transport error", gerr)
		} else {
			expA := map[string]string{}
			var expU []string
			for p := 0; p < n; p++ {
				if alive[p] {
					expA[fmt.Sprintf("p%d", p)] = "c1"
					expU = append(expU, fmt.Sprintf("other%d=%d", p, 1000+p))
				}
			}
			sort.Strings(expU)
			if lc.name == "CreateContainer" && fmt.Sprint(annot) != fmt.Sprint(expA) {
				add("contributions", "response carries annotations %v, expected the surviving plugins' contributions %v", annot, expA)
			}
			if (lc.name == "CreateContainer" || lc.name == "UpdateContainer" || lc.name == "StopContainer") && fmt.Sprint(updTargets(ups)) != fmt.Sprint(expU) {
				add("contributions", "response carries updates %v, expected %v", updTargets(ups), expU)
			}
		}
	}
	for p := 0; p < n; p++ {
		if !alive[p] && !vps[p].IsClosed() {
			add("not-closed", "plugin %d failed with a transport error but was not closed", p)
		}
		if alive[p] && vps[p].IsClosed() {
			add("closed-healthy", "plugin %d was closed although it did not fail with a transport error", p)
		}
	}
	// second request: dropped plugins must not be invoked again
	round = 1
	invoked = nil
	var exp2 []int
	for p := 0; p < n; p++ {
		if alive[p] {
			exp2 = append(exp2, p)
		}
	}
	_, _, _, err2 := lc.call(env.R, "c2")
	if err2 != nil {
		add("second-request", "second request failed: %v", err2)
	}
	if fmt.Sprint(invoked) != fmt.Sprint(exp2) {
		add("dropped-plugin-called-again", "second request invoked %v, expected only the surviving plugins %v", invoked, exp2)
	}
	return
}

// ---- engine cuts --------------------------------------------------------

const reqTimeout = 400 * time.Millisecond

type cutCase struct {
	Call   string `json:"call"`
	N      int    `json:"plugins"`
	Victim int    `json:"victim"`
	Fault  string `json:"fault"` // cut-request | cut-response | blackhole-request | blackhole-response | stop-before | stop-inside | stop-after | hang | handler-error
	Offset int64  `json:"offset"`
	// a second plugin failing in the same request (thorough tier): stop-before | hang | blackhole
	Fault2  string `json:"fault2,omitempty"`
	Victim2 int    `json:"victim2,omitempty"`
}

func (c cutCase) String() string {
	s := fmt.Sprintf("%s n=%d victim=%d %s@%d", c.Call, c.N, c.Victim, c.Fault, c.Offset)
	if c.Fault2 != "" {
		s += fmt.Sprintf(" + victim=%d %s", c.Victim2, c.Fault2)
	}
	return s
}

func (c cutCase) isVictim(p int) bool { return p == c.Victim || (c.Fault2 != "" && p == c.Victim2) }

type cutEnv struct {
	rt      *full.Runtime
	plugins []*full.Plugin
	fc      *full.FaultConn
	fc2     *full.FaultConn   // the second victim's connection
	rtfc    []*full.FaultConn // runtime-side ends, in accept order
	leak    bool
}

var twoVictimCalls = map[string]bool{"CreateContainer": true, "UpdateContainer": true, "StopContainer": true, "StartContainer": true}

var stalls int32 // number of stalled requests seen (each leaks an environment and costs the horizon)

func (e *cutEnv) close() {
	if e.leak {
		return // a request is stuck inside the adaptation: closing would hang too
	}
	for _, p := range e.plugins {
		if p.Stub != nil {
			p.Stub.Stop()
		}
	}
	e.rt.Close()
}

func newCutEnv(c cutCase, inside func(p int, method string)) (*cutEnv, error) {
	rt, err := full.NewRuntime()
	if err != nil {
		return nil, err
	}
	e := &cutEnv{rt: rt}
	var amu sync.Mutex
	if err := rt.StartWrapped(func(cn net.Conn) net.Conn {
		fc := full.NewFaultConn(cn)
		amu.Lock()
		e.rtfc = append(e.rtfc, fc)
		amu.Unlock()
		return fc
	}); err != nil {
		rt.Close()
		return nil, err
	}
	for p := 0; p < c.N; p++ {
		p := p
		pl := full.NewPlugin(seam.StdIdx(p), fmt.Sprintf("f%d", p))
		hook := func(m string) error {
			if inside != nil {
				inside(p, m)
			}
			if p == c.Victim && c.Fault == "handler-error" {
				return errors.New("deliberate handler error")
			}
			return nil
		}
		pl.CreateFn = func(_ *api.PodSandbox, ct *api.Container) (*api.ContainerAdjustment, []*api.ContainerUpdate, error) {
			if err := hook("CreateContainer"); err != nil {
				return nil, nil, err
			}
			r := contribResp("CreateContainer", p, ct.Id).(*api.CreateContainerResponse)
			return r.Adjust, r.Update, nil
		}
		pl.UpdateFn = func(_ *api.PodSandbox, ct *api.Container, _ *api.LinuxResources) ([]*api.ContainerUpdate, error) {
			if err := hook("UpdateContainer"); err != nil {
				return nil, err
			}
			return contribResp("UpdateContainer", p, ct.Id).(*api.UpdateContainerResponse).Update, nil
		}
		pl.StopFn = func(_ *api.PodSandbox, ct *api.Container) ([]*api.ContainerUpdate, error) {
			if err := hook("StopContainer"); err != nil {
				return nil, err
			}
			return contribResp("StopContainer", p, ct.Id).(*api.StopContainerResponse).Update, nil
		}
		pl.EventFn = func(m string, _ *api.PodSandbox, _ *api.Container) error { return hook(m) }
		var wrap func(net.Conn) net.Conn
		if p == c.Victim {
			wrap = func(cn net.Conn) net.Conn {
				e.fc = full.NewFaultConn(cn)
				return e.fc
			}
		} else if c.Fault2 != "" && p == c.Victim2 {
			wrap = func(cn net.Conn) net.Conn {
				e.fc2 = full.NewFaultConn(cn)
				return e.fc2
			}
		}
		if err := pl.Start(rt, wrap); err != nil {
			e.close()
			return nil, fmt.Errorf("plugin %d start: %w", p, err)
		}
		if !pl.WaitActive(rt, 5*time.Second) {
			e.close()
			return nil, fmt.Errorf("plugin %d did not become active", p)
		}
		e.plugins = append(e.plugins, pl)
	}
	return e, nil
}

func findCall(name string) lifecycle {
	for _, lc := range calls {
		if lc.name == name {
			return lc
		}
	}
	panic(name)
}

// measure returns the number of bytes of the request (runtime->victim) and of the response.
func measure(c cutCase) (int64, int64, error) {
	var e *cutEnv
	var err error
	release := make(chan struct{})
	defer close(release)
	inside := func(p int, m string) {
		if c.Fault2 == "hang" && p == c.Victim2 {
			<-release
		}
	}
	for try := 0; try < 4; try++ { // setting the environment up can fail under heavy load (timeouts)
		if e, err = newCutEnv(c, inside); err == nil {
			break
		}
		time.Sleep(300 * time.Millisecond)
	}
	if err != nil {
		return 0, 0, err
	}
	defer e.close()
	e.fc.Arm(-1, -1)
	// what the first victim is sent depends on what the earlier plugins contributed: with a second
	// failing plugin the byte counts are measured with that plugin failing
	switch c.Fault2 {
	case "stop-before":
		e.plugins[c.Victim2].Stub.Stop()
	case "blackhole":
		e.fc2.Blackhole = true
		e.fc2.Arm(0, -1)
	}
	if _, _, _, err := findCall(c.Call).call(e.rt.R, "c1"); err != nil {
		return 0, 0, err
	}
	time.Sleep(20 * time.Millisecond)
	r, w := e.fc.Counts()
	return r, w, nil
}

func countCalls(p *full.Plugin, method, id string) int {
	n := 0
	for _, c := range p.Calls() {
		if c.Method == method && (c.Ctr == id || c.Ctr == "" && id == "") {
			n++
		}
	}
	return n
}

func runCutCase(c cutCase) (viol []string, sig string) {
	add := func(kind, f string, a ...any) {
		viol = append(viol, fmt.Sprintf(f, a...))
		if sig == "" {
			sig = fmt.Sprintf("C07|cuts|%s|%s", kind, c.Fault)
		}
	}
	var e *cutEnv
	release := make(chan struct{})
	lateEntered, lateGo := make(chan struct{}), make(chan struct{})
	inside := func(p int, m string) {
		if c.Fault2 == "hang" && p == c.Victim2 {
			<-release
			return
		}
		if p != c.Victim {
			return
		}
		switch c.Fault {
		case "stop-inside":
			go e.plugins[p].Stub.Stop()
			time.Sleep(5 * time.Millisecond)
		case "hang", "hang-retimed":
			<-release
		case "late-answer":
			// answers only when told to (after the gate in the multiplexer readers is armed)
			close(lateEntered)
			<-lateGo
		case "hang-updating":
			// the hanging plugin also has an unsolicited update of its own in flight
			go e.plugins[p].Stub.UpdateContainers([]*api.ContainerUpdate{{ContainerId: "by-the-hanging-plugin"}})
			time.Sleep(5 * time.Millisecond)
			<-release
		}
	}
	var err error
	if c.Fault == "hang-retimed" {
		// the plugins register while a long request timeout is configured; the timeout in force when the
		// request is made is the short one
		adaptation.SetPluginRequestTimeout(20 * time.Second)
	}
	e, err = newCutEnv(c, inside)
	if c.Fault == "hang-retimed" {
		adaptation.SetPluginRequestTimeout(reqTimeout)
	}
	if err != nil {
		return []string{"machinery: " + err.Error()}, "C07|machinery"
	}
	defer func() {
		// tearing the session down (Stop of every stub, Stop of the runtime) must not hang either
		done := make(chan struct{})
		go func() { e.close(); close(done) }()
		select {
		case <-done:
		case <-time.After(8 * time.Second):
			buf := make([]byte, 1<<16)
			n := runtime.Stack(buf, true)
			add("close-hangs-after-fault", "stopping the plugins and the runtime after the fault did not finish within 8 s\n%s", firstLines(string(buf[:n]), 50))
			atomic.AddInt32(&stalls, 1)
		}
	}()
	defer close(release)
	switch c.Fault {
	case "cut-request":
		e.fc.Arm(c.Offset, -1)
	case "cut-response":
		e.fc.Arm(-1, c.Offset)
	case "blackhole-request":
		e.fc.Blackhole = true
		e.fc.Arm(c.Offset, -1)
	case "blackhole-response":
		e.fc.Blackhole = true
		e.fc.Arm(-1, c.Offset)
	case "stop-before":
		e.plugins[c.Victim].Stub.Stop()
	case "flood":
		// the victim breaks the protocol: it stops reading its socket and floods the runtime's service
		// connection (mux id 2) with bare ttrpc request headers; the runtime answers each with an error
		// status until its replies fill the socket, then the read queue of that connection overflows
		e.fc.Blackhole = true
		e.fc.Arm(0, -1)
		frame := make([]byte, 8+10)
		binary.BigEndian.PutUint32(frame[0:4], 2)   // connection id: runtime service
		binary.BigEndian.PutUint32(frame[4:8], 10)  // payload: one ttrpc message header
		binary.BigEndian.PutUint32(frame[8:12], 0)  // ttrpc: no payload
		binary.BigEndian.PutUint32(frame[12:16], 2) // ttrpc: even (invalid for a client) stream id
		frame[16] = 1                               // ttrpc: request
		burst := bytes.Repeat(frame, 64)
		for k := 0; k < 4000; k++ {
			e.fc.Conn.SetWriteDeadline(time.Now().Add(2 * time.Second))
			if _, err := e.fc.Conn.Write(burst); err != nil {
				break
			}
		}
		e.fc.Conn.SetWriteDeadline(time.Time{})
	case "rt-cut-write":
		// the runtime's own write of the request fails after k bytes (partial write)
		e.rtfc[c.Victim].Arm(-1, c.Offset)
	case "rt-cut-read":
		e.rtfc[c.Victim].Arm(c.Offset, -1)
	}
	switch c.Fault2 {
	case "stop-before":
		e.plugins[c.Victim2].Stub.Stop()
	case "blackhole":
		e.fc2.Blackhole = true
		e.fc2.Arm(0, -1)
	}
	lc := findCall(c.Call)
	type result struct {
		annot map[string]string
		ups   []*api.ContainerUpdate
		ok    bool
		err   error
	}
	done := make(chan result, 1)
	start := time.Now()
	go func() {
		a, u, ok, err := lc.call(e.rt.R, "c1")
		done <- result{a, u, ok, err}
	}()
	horizon := time.Duration(c.N)*reqTimeout + 6*time.Second
	if c.Fault == "late-answer" {
		// the victim's answer is read off the trunk by the runtime's multiplexer while the runtime gives
		// up on the plugin: the frame is held right before it is queued until the plugin has been closed
		select {
		case <-lateEntered:
			var gmu sync.Mutex
			armed := true
			gateRelease := make(chan struct{})
			vsched.SetGate("mux.queue", func(any) {
				gmu.Lock()
				a := armed
				gmu.Unlock()
				if a {
					<-gateRelease
				}
			})
			close(lateGo)
			time.Sleep(time.Until(start.Add(reqTimeout + 150*time.Millisecond)))
			gmu.Lock()
			armed = false
			gmu.Unlock()
			close(gateRelease)
		case <-time.After(5 * time.Second):
			close(lateGo)
		}
	}
	var r result
	select {
	case r = <-done:
	case <-time.After(horizon):
		buf := make([]byte, 1<<16)
		n := runtime.Stack(buf, true)
		add("stall", "request did not return within %v (%d plugins x %v request timeout plus slack)\n%s", horizon, c.N, reqTimeout, firstLines(string(buf[:n]), 60))
		e.leak = true
		atomic.AddInt32(&stalls, 1)
		return
	}
	elapsed := time.Since(start)
	_ = elapsed
	if c.Fault == "handler-error" {
		if r.err == nil || !strings.Contains(r.err.Error(), "deliberate handler error") {
			add("veto-lost", "the victim's handler error was not returned (err=%v)", r.err)
		}
		if r.ok {
			add("partial-result", "request vetoed but a response was returned")
		}
		for p := c.Victim + 1; p < c.N; p++ {
			if n := len(e.plugins[p].Calls()); n != 0 {
				add("veto-continues", "plugin %d was invoked after the veto", p)
			}
		}
		return
	}
	if r.err != nil {
		add("request-failed", "request failed (%v) although the only failure was the victim's connection/timeout", r.err)
		return
	}
	victimDropped := c.Fault != "stop-after"
	expA := map[string]string{}
	var expU []string
	for p := 0; p < c.N; p++ {
		if p == c.Victim && victimDropped || (c.Fault2 != "" && p == c.Victim2) {
			continue
		}
		expA[fmt.Sprintf("p%d", p)] = "c1"
		expU = append(expU, fmt.Sprintf("other%d=%d", p, 1000+p))
	}
	sort.Strings(expU)
	if c.Call == "CreateContainer" && fmt.Sprint(r.annot) != fmt.Sprint(expA) {
		add("contributions", "response carries annotations %v, expected %v", r.annot, expA)
	}
	if (c.Call == "CreateContainer" || c.Call == "UpdateContainer" || c.Call == "StopContainer") && fmt.Sprint(updTargets(r.ups)) != fmt.Sprint(expU) {
		add("contributions", "response carries updates %v, expected %v", updTargets(r.ups), expU)
	}
	// every surviving plugin was asked exactly once (events carry no contribution to look at)
	invoked := func(round int, id string) {
		for p := 0; p < c.N; p++ {
			if c.isVictim(p) {
				continue
			}
			withID, podScoped := 0, 0
			for _, cl := range e.plugins[p].Calls() {
				if cl.Method != c.Call {
					continue
				}
				if cl.Ctr == id {
					withID++
				}
				if cl.Ctr == "" {
					podScoped++
				}
			}
			// container-scoped calls carry the request's container id; pod-scoped ones are counted in total
			n, want := withID, 1
			if podScoped > 0 {
				n, want = podScoped, round
			}
			if n != want {
				add("survivor-not-invoked", "request %d: surviving plugin %d handled %s %d times, expected %d", round, p, c.Call, n, want)
			}
		}
	}
	invoked(1, "c1")
	if c.Fault == "stop-after" {
		e.plugins[c.Victim].Stub.Stop()
	}
	// second request: survivors intact, the victim is not called again
	before := len(e.plugins[c.Victim].Calls())
	before2 := 0
	if c.Fault2 != "" {
		before2 = len(e.plugins[c.Victim2].Calls())
	}
	done2 := make(chan result, 1)
	go func() {
		a, u, ok, err := lc.call(e.rt.R, "c2")
		done2 <- result{a, u, ok, err}
	}()
	select {
	case r2 := <-done2:
		if r2.err != nil {
			add("second-request", "second request failed: %v", r2.err)
		}
		delete(expA, fmt.Sprintf("p%d", c.Victim))
		if c.Fault2 != "" {
			delete(expA, fmt.Sprintf("p%d", c.Victim2))
		}
		for k := range expA {
			expA[k] = "c2"
		}
		if c.Call == "CreateContainer" && r2.err == nil && fmt.Sprint(r2.annot) != fmt.Sprint(expA) {
			add("contributions", "second response carries annotations %v, expected %v", r2.annot, expA)
		}
	case <-time.After(horizon):
		add("stall", "second request did not return within %v", horizon)
		e.leak = true
		atomic.AddInt32(&stalls, 1)
		return
	}
	if after := len(e.plugins[c.Victim].Calls()); after != before {
		add("dropped-plugin-called-again", "the dropped plugin received another request")
	}
	if len(viol) == 0 {
		invoked(2, "c2")
	}
	if c.Fault2 != "" {
		if after := len(e.plugins[c.Victim2].Calls()); after != before2 {
			add("dropped-plugin-called-again", "the second dropped plugin received another request")
		}
	}
	for _, n := range adaptation.VerifActiveNames(e.rt.R) {
		for p := range e.plugins {
			if c.isVictim(p) && n == e.plugins[p].Idx+"-"+e.plugins[p].Name {
				add("not-pruned", "the failed plugin %s is still listed as active after two requests", n)
			}
		}
	}
	return
}

func firstLines(s string, n int) string {
	l := strings.Split(s, "\n")
	if len(l) > n {
		l = l[:n]
	}
	return strings.Join(l, "\n")
}

func engineCuts(f *rep.Flags, res *rep.Result) {
	adaptation.SetPluginRequestTimeout(reqTimeout)
	callNames := []string{"CreateContainer", "UpdateContainer", "StopContainer", "StartContainer"}
	sched := f.Engine == "cutsched"
	if sched && !f.Thorough() {
		callNames = []string{"CreateContainer", "StopPodSandbox"}
	}
	if f.Thorough() {
		callNames = nil
		for _, lc := range calls {
			callNames = append(callNames, lc.name)
		}
	}
	var cases []cutCase
	sizes := map[string][2]int64{}
	for _, cn := range callNames {
		for _, n := range []int{2, 3} {
			for v := 0; v < n; v++ {
				if !f.Thorough() && n == 3 && v != 1 {
					continue
				}
				rq, rs, err := measure(cutCase{Call: cn, N: n, Victim: v})
				if err != nil {
					rep.Fatal(f, "measuring %s: %v", cn, err)
				}
				rq2, rs2, _ := measure(cutCase{Call: cn, N: n, Victim: v})
				if rq != rq2 || rs != rs2 {
					rep.Fatal(f, "byte counts of %s are not reproducible (%d/%d vs %d/%d)", cn, rq, rs, rq2, rs2)
				}
				sizes[fmt.Sprintf("%s/n%d/v%d", cn, n, v)] = [2]int64{rq, rs}
				for k := int64(0); k < rq; k++ {
					cases = append(cases, cutCase{Call: cn, N: n, Victim: v, Fault: "cut-request", Offset: k})
				}
				for k := int64(0); k < rs; k++ {
					cases = append(cases, cutCase{Call: cn, N: n, Victim: v, Fault: "cut-response", Offset: k})
				}
				if sched {
					continue // the delayed-caller schedule: cuts of the request and of the response only
				}
				for k := int64(0); k < rq; k++ {
					cases = append(cases, cutCase{Call: cn, N: n, Victim: v, Fault: "rt-cut-write", Offset: k})
				}
				for k := int64(0); k < rs; k++ {
					cases = append(cases, cutCase{Call: cn, N: n, Victim: v, Fault: "rt-cut-read", Offset: k})
				}
				for _, ft := range []string{"stop-before", "stop-inside", "stop-after", "hang", "hang-updating", "handler-error", "flood", "late-answer", "hang-retimed"} {
					cases = append(cases, cutCase{Call: cn, N: n, Victim: v, Fault: ft})
				}
				for _, k := range []int64{0, rq / 2, rq - 1} {
					cases = append(cases, cutCase{Call: cn, N: n, Victim: v, Fault: "blackhole-request", Offset: k})
				}
				for _, k := range []int64{0, rs / 2, rs - 1} {
					cases = append(cases, cutCase{Call: cn, N: n, Victim: v, Fault: "blackhole-response", Offset: k})
				}
				// two plugins failing in one request: every cut offset of the first x three fixed faults of a second
				if f.Thorough() && n == 3 && twoVictimCalls[cn] {
					for v2 := 0; v2 < n; v2++ {
						if v2 == v {
							continue
						}
						for _, f2 := range []string{"stop-before", "hang", "blackhole"} {
							rq, rs, err := measure(cutCase{Call: cn, N: n, Victim: v, Fault2: f2, Victim2: v2})
							if err != nil {
								rep.Fatal(f, "measuring %s with a second failing plugin: %v", cn, err)
							}
							if rq2, rs2, _ := measure(cutCase{Call: cn, N: n, Victim: v, Fault2: f2, Victim2: v2}); rq != rq2 || rs != rs2 {
								rep.Fatal(f, "byte counts of %s with a second failing plugin are not reproducible (%d/%d vs %d/%d)", cn, rq, rs, rq2, rs2)
							}
							for k := int64(0); k < rq; k++ {
								cases = append(cases, cutCase{Call: cn, N: n, Victim: v, Fault: "cut-request", Offset: k, Fault2: f2, Victim2: v2})
							}
							for k := int64(0); k < rs; k++ {
								cases = append(cases, cutCase{Call: cn, N: n, Victim: v, Fault: "cut-response", Offset: k, Fault2: f2, Victim2: v2})
							}
						}
					}
				}
			}
		}
	}
	res.Bounds["request_response_bytes"] = sizes
	res.Bounds["request_timeout_ms"] = reqTimeout.Milliseconds()
	var mu sync.Mutex
	var wg sync.WaitGroup
	skipped := 0
	var suspects []cutCase
	jobs := make(chan cutCase, 64)
	for w := 0; w < 8; w++ {
		wg.Add(1)
		go func() {
			defer wg.Done()
			for c := range jobs {
				if atomic.LoadInt32(&stalls) >= 3 {
					mu.Lock()
					skipped++
					mu.Unlock()
					continue // enough evidence of stalls; every further one costs the full horizon
				}
				v, sig := runCutCase(c)
				if len(v) > 0 && strings.Contains(sig, "|request-failed|") && !strings.Contains(v[0], "deadline exceeded") && !strings.Contains(v[0], "timed out") {
					// a request that came back with an error other than a timeout is an observation no
					// amount of machine load can produce: believed at once, even if it is rare
					v[0] += " (observed once; not re-executed: which error a call in flight sees when its connection fails depends on the schedule)"
				} else if len(v) > 0 {
					// not believed yet: confirmed sequentially, without the load of the parallel phase
					mu.Lock()
					suspects = append(suspects, c)
					mu.Unlock()
					v, sig = nil, ""
				}
				mu.Lock()
				res.Evaluations++
				res.States++
				res.Transitions += 2
				res.Distinct++
				if len(v) > 0 {
					res.Add(sig, strings.Join(v, "\n  ")+"\n  case: "+c.String(), map[string]any{"engine": "cuts", "case": c})
				}
				mu.Unlock()
			}
		}()
	}
	var sequential []cutCase
	for i, c := range cases {
		if i%f.NShards == f.Shard {
			if c.Fault == "late-answer" || c.Fault == "hang-retimed" {
				sequential = append(sequential, c) // the gate in the multiplexer readers and the timeouts are process-wide
				continue
			}
			jobs <- c
		}
	}
	close(jobs)
	wg.Wait()
	for _, c := range sequential {
		// these cases run one at a time: if the code under test kills the process, the runner knows
		// which case was running
		if jp := os.Getenv("VSCHED_JOURNAL"); jp != "" {
			jb, _ := json.Marshal(map[string]any{"engine": "cuts", "case": c})
			os.WriteFile(jp, jb, 0o644)
		}
		v, sig := runCutCase(c)
		res.Evaluations++
		res.States++
		res.Transitions += 2
		res.Distinct++
		if len(v) > 0 {
			suspects = append(suspects, c)
			_ = sig
		}
	}
	if jp := os.Getenv("VSCHED_JOURNAL"); jp != "" {
		os.Remove(jp)
	}
	vsched.SetGate("mux.queue", nil)
	// confirmation pass: a suspect must fail three times in a row, alone, to be believed
	for _, c := range suspects {
		var v []string
		var sig string
		fails := 0
		for try := 0; try < 3; try++ {
			v, sig = runCutCase(c)
			if len(v) == 0 {
				break
			}
			fails++
			time.Sleep(200 * time.Millisecond)
		}
		if fails < 3 {
			res.Notes = append(res.Notes, "not reproduced when re-executed alone (load/timing): "+c.String())
			continue
		}
		if sig == "C07|machinery" {
			res.Exhaustive = false
			res.Notes = append(res.Notes, "case skipped, its environment could not be set up: "+c.String()+": "+v[0])
			continue
		}
		res.Add(sig, strings.Join(v, "\n  ")+"\n  case: "+c.String(), map[string]any{"engine": "cuts", "case": c})
	}
	res.Bounds["cases"] = len(cases)
	if skipped > 0 {
		res.Exhaustive = false
		res.Notes = append(res.Notes, fmt.Sprintf("%d cases skipped after three stalled requests were found", skipped))
	}
	res.Sample(map[string]any{"case": cutCase{Call: "CreateContainer", N: 3, Victim: 1, Fault: "cut-response", Offset: 17}.String(), "expect": "victim dropped, request succeeds with the contributions of plugins 0 and 2, second request skips the victim"})
}

func main() {
	f := rep.ParseFlags()
	res := &rep.Result{Property: f.Prop, Engine: "faults/" + f.Engine, Exhaustive: true, Bounds: map[string]any{}}
	if f.Replay != "" {
		os.Exit(replayFaults(f))
	}
	switch f.Engine {
	case "answers":
		res.Rule = "every vector of answers (ok, 5 handler-error forms, 6 transport-error forms incl. wrapped ones) of 1-3 plugins x request types, followed by a second request; oracle: sequential model (transport error => plugin skipped, closed and absent afterwards; handler error => veto, no later plugin, no response); non-trivial = at least one plugin fails"
		res.Assumptions = []string{"plugins are created by the real newExternalPlugin on pipes and their service implementation is replaced by a scripted one"}
		engineAnswers(f, res)
	case "cuts":
		res.Rule = "full stack; for each request type and victim position every byte offset of the request and of the response is a cut point; plus stop before/inside/after the handler, hang past the request timeout, black hole, deliberate handler error; schedules underneath are free-running (ttrpc goroutines): exhaustive over fault points, not over interleavings; a violation is believed only if it reproduces on re-execution"
		res.Assumptions = []string{"request timeout set to 150 ms; a request is declared stalled only after plugins x timeout + 10 s", "in-process stubs over real unix sockets"}
		engineCuts(f, res)
	case "cutsched":
		res.Rule = "the victim's connection is cut after every byte of its response (and of the request) while every calling goroutine of the runtime is held for 30 ms between sending its request and waiting for the answer (a delay point inserted into the ttrpc client at build time: the schedule in which the caller is preempted there), so that the connection's failure and the end of the call are both pending when the caller looks; oracle as for the cuts"
		res.Assumptions = []string{"ttrpc's client.go is patched at build time with a delay point that is off by default"}
		ttrpc.VerifDispatchDelayNS = int64(30 * time.Millisecond)
		engineCuts(f, res)
	case "repeat":
		// experiment: one case (VERIF_CASE, JSON) executed VERIF_N times, failures counted by signature
		logrus.SetOutput(io.Discard)
		adaptation.SetPluginRequestTimeout(reqTimeout)
		var c cutCase
		if err := json.Unmarshal([]byte(os.Getenv("VERIF_CASE")), &c); err != nil {
			rep.Fatal(f, "VERIF_CASE: %v", err)
		}
		n := 100
		fmt.Sscan(os.Getenv("VERIF_N"), &n)
		cnt := map[string]int{}
		for i := 0; i < n; i++ {
			v, sig := runCutCase(c)
			if len(v) > 0 {
				cnt[sig+" :: "+firstLines(v[0], 1)]++
			}
		}
		res.Evaluations = int64(n)
		res.Exhaustive = false
		res.Supporting = true
		for k, v := range cnt {
			res.Notes = append(res.Notes, fmt.Sprintf("%d of %d runs: %s", v, n, k))
		}
	default:
		rep.Fatal(f, "unknown engine %q", f.Engine)
	}
	res.Write(f)
}

// replayFaults re-executes the one case named by a replay file.
func replayFaults(f *rep.Flags) int {
	logrus.SetOutput(io.Discard)
	b, err := os.ReadFile(f.Replay)
	if err != nil {
		rep.Fatal(f, "%v", err)
	}
	var w struct {
		Property string `json:"property"`
		Engine   string `json:"engine"`
		Replay   struct {
			Engine  string   `json:"engine"`
			Case    cutCase  `json:"case"`
			Call    string   `json:"call"`
			Answers []string `json:"answers"`
		} `json:"replay"`
	}
	if err := json.Unmarshal(b, &w); err != nil {
		rep.Fatal(f, "%v", err)
	}
	adaptation.SetPluginRequestTimeout(reqTimeout)
	var v []string
	switch w.Replay.Engine {
	case "answers":
		var vec []int
		for _, n := range w.Replay.Answers {
			for i := range answers {
				if answers[i].name == n {
					vec = append(vec, i)
				}
			}
		}
		if len(vec) != len(w.Replay.Answers) {
			rep.Fatal(f, "unknown answer name in %v", w.Replay.Answers)
		}
		v, _, _ = runAnswerCase(len(vec), vec, findCall(w.Replay.Call))
		fmt.Printf("case: %s answers=%v\n", w.Replay.Call, w.Replay.Answers)
	default:
		if strings.HasSuffix(w.Engine, "cutsched") {
			ttrpc.VerifDispatchDelayNS = int64(30 * time.Millisecond)
			fmt.Println("schedule: every caller held for 30 ms between sending its request and waiting for the answer")
		}
		if w.Replay.Case.Call == "" {
			fmt.Println("this finding (a crash of the worker process during the parallel phase) does not name one case: re-run the check")
			return 0
		}
		fmt.Printf("case: %s\n", w.Replay.Case.String())
		// which error a call in flight sees can depend on the schedule: up to 20 executions
		for try := 0; try < 20 && len(v) == 0; try++ {
			v, _ = runCutCase(w.Replay.Case)
		}
	}
	for _, m := range v {
		fmt.Println("  ", firstLines(m, 12))
	}
	if len(v) > 0 {
		fmt.Printf("VIOLATION property=%s replay=%s\n", w.Property, f.Replay)
		return 1
	}
	fmt.Println("no violation")
	return 0
}
