// Harness "muxreal": the multiplexer with its real constants (4 MiB frame
// limit) over a real socket pair, free-running: concurrent writers with
// payload sizes from 0 to 9 MiB on several connection ids in both
// directions. Supporting evidence for C10 that ties the controlled
// exploration (frame limit shrunk to 16 bytes) to the real constant; not
// exhaustive.
package main

import (
	"bytes"
	"fmt"
	"net"
	"os"
	"sync"
	"syscall"
	"time"

	"github.com/containerd/nri/pkg/net/multiplex"

	"nriverif/lib/rep"
)

func socketpair() (net.Conn, net.Conn, error) {
	fds, err := syscall.Socketpair(syscall.AF_UNIX, syscall.SOCK_STREAM|syscall.SOCK_CLOEXEC, 0)
	if err != nil {
		return nil, nil, err
	}
	mk := func(fd int) (net.Conn, error) {
		f := os.NewFile(uintptr(fd), "sp")
		defer f.Close()
		return net.FileConn(f)
	}
	a, err := mk(fds[0])
	if err != nil {
		return nil, nil, err
	}
	b, err := mk(fds[1])
	return a, b, err
}

func payload(w, s, size int) []byte {
	b := make([]byte, size)
	x := uint32(w*7919 + s*104729 + 1)
	for i := range b {
		x = x*1664525 + 1013904223
		b[i] = byte(x >> 24)
	}
	return b
}

const maxFrame = 10 + 4<<20

type wspec struct {
	end   int
	id    uint32
	sizes []int
}

func runOnce(ws []wspec) []string {
	var viol []string
	a, b, err := socketpair()
	if err != nil {
		return []string{"machinery: " + err.Error()}
	}
	// the queue is longer than the number of frames any connection receives: the receiver "keeps up" by construction
	m := [2]multiplex.Mux{multiplex.Multiplex(a, multiplex.WithReadQueueLength(4096)), multiplex.Multiplex(b, multiplex.WithReadQueueLength(4096))}
	defer m[0].Close()
	defer m[1].Close()
	conns := map[[2]uint32]net.Conn{}
	ids := map[uint32]bool{}
	for _, w := range ws {
		ids[w.id] = true
	}
	for id := range ids {
		for e := 0; e < 2; e++ {
			c, err := m[e].Open(multiplex.ConnID(id))
			if err != nil {
				return []string{err.Error()}
			}
			conns[[2]uint32{uint32(e), id}] = c
		}
	}
	// expected bytes per (receiving end, id): per writer stream
	type key struct {
		end int
		id  uint32
	}
	streams := map[key][][]byte{}
	total := map[key]int{}
	for wi, w := range ws {
		var st []byte
		for s, size := range w.sizes {
			st = append(st, payload(wi, s, size)...)
		}
		k := key{1 - w.end, w.id}
		streams[k] = append(streams[k], st)
		total[k] += len(st)
	}
	var wg sync.WaitGroup
	var mu sync.Mutex
	got := map[key][][]byte{} // frames
	for k, n := range total {
		k, n := k, n
		wg.Add(1)
		go func() {
			defer wg.Done()
			c := conns[[2]uint32{uint32(k.end), k.id}]
			buf := make([]byte, maxFrame+16)
			rd := 0
			deadline := time.Now().Add(60 * time.Second)
			for rd < n && time.Now().Before(deadline) {
				x, err := c.Read(buf)
				if err != nil {
					mu.Lock()
					viol = append(viol, fmt.Sprintf("read on %d:%d failed after %d of %d bytes: %v", k.end, k.id, rd, n, err))
					mu.Unlock()
					return
				}
				mu.Lock()
				got[k] = append(got[k], append([]byte(nil), buf[:x]...))
				mu.Unlock()
				rd += x
			}
		}()
	}
	for wi, w := range ws {
		wi, w := wi, w
		wg.Add(1)
		go func() {
			defer wg.Done()
			c := conns[[2]uint32{uint32(w.end), w.id}]
			for s, size := range w.sizes {
				p := payload(wi, s, size)
				n, err := c.Write(p)
				if err != nil || n != len(p) {
					mu.Lock()
					viol = append(viol, fmt.Sprintf("write of %d bytes on %d:%d returned %d, %v", size, w.end, w.id, n, err))
					mu.Unlock()
					return
				}
			}
		}()
	}
	done := make(chan struct{})
	go func() { wg.Wait(); close(done) }()
	select {
	case <-done:
	case <-time.After(90 * time.Second):
		return append(viol, "transfer did not finish within 90 s (stream desynchronised or a thread blocked)")
	}
	// each stream of a single writer per id must arrive exactly; with several writers on one id the
	// received bytes must be a merge of whole payloads: check by greedy matching of payload boundaries
	for k, sts := range streams {
		var all []byte
		for _, fr := range got[k] {
			all = append(all, fr...)
		}
		if len(sts) == 1 {
			if !bytes.Equal(all, sts[0]) {
				viol = append(viol, fmt.Sprintf("connection %d:%d: received %d bytes that differ from the %d bytes written (first difference at %d)", k.end, k.id, len(all), len(sts[0]), firstDiff(all, sts[0])))
			}
			continue
		}
		// several writers: match whole payloads greedily
		pos := make([]int, len(sts))
		off := 0
		var pls [][][]byte
		for wi, w := range ws {
			if (key{1 - w.end, w.id}) != k {
				continue
			}
			var ps [][]byte
			for s, size := range w.sizes {
				ps = append(ps, payload(wi, s, size))
			}
			pls = append(pls, ps)
		}
		for off < len(all) {
			matched := false
			for i := range pls {
				if pos[i] < len(pls[i]) {
					p := pls[i][pos[i]]
					if len(p) > 0 && off+len(p) <= len(all) && bytes.Equal(all[off:off+len(p)], p) {
						off += len(p)
						pos[i]++
						matched = true
						break
					}
					if len(p) == 0 {
						pos[i]++
						matched = true
						break
					}
				}
			}
			if !matched {
				viol = append(viol, fmt.Sprintf("connection %d:%d: at offset %d the received bytes are not the start of any writer's next whole payload (payloads mixed or damaged)", k.end, k.id, off))
				break
			}
		}
	}
	return viol
}

func firstDiff(a, b []byte) int {
	n := len(a)
	if len(b) < n {
		n = len(b)
	}
	for i := 0; i < n; i++ {
		if a[i] != b[i] {
			return i
		}
	}
	return n
}

func main() {
	f := rep.ParseFlags()
	res := &rep.Result{Property: f.Prop, Engine: "muxreal", Exhaustive: false, Supporting: true, Bounds: map[string]any{},
		Rule:        "free-running transfers over a real socket pair with the real 4 MiB frame limit: concurrent writers with payload sizes {0, 1, 4088, 4089, 6000, 64 KiB, max-1, max, max+1, 2*max+3, 9 MiB} on 1-3 ids in both directions, repeated; supporting evidence (not exhaustive) tying the controlled exploration to the real constants",
		Assumptions: []string{"free-running: scheduling is up to the Go runtime"}}
	sets := [][]wspec{
		{{0, 1, []int{9 << 20}}, {0, 2, []int{16, 1, 0, 4088, 4089, 6000}}},
		{{0, 1, []int{maxFrame + 1, 1}}, {1, 1, []int{64 << 10, maxFrame}}, {0, 2, []int{6000, 6000, 6000}}},
		{{0, 1, []int{2*maxFrame + 3}}, {0, 1, []int{4089, 16, maxFrame - 1}}, {1, 3, []int{1, 4088}}},
		{{0, 1, []int{6000, 4089, 5000}}, {0, 2, []int{16, 17, 18, 19, 20, 21}}, {0, 3, []int{4088, 4088}}, {1, 2, []int{9000}}},
	}
	// many medium and small frames racing on different ids (frames of one id interleaving inside a
	// frame of another id desynchronise the stream)
	many := func(n, size int) []int {
		s := make([]int, n)
		for i := range s {
			s[i] = size + i%3
		}
		return s
	}
	sets = append(sets, []wspec{{0, 1, many(400, 6000)}, {0, 2, many(400, 16)}, {0, 3, many(400, 4087)}, {1, 1, many(200, 5000)}, {1, 2, many(200, 1)}})
	reps := 3
	if f.Thorough() {
		reps = 15
	}
	n := 0
	for r := 0; r < reps && len(res.Findings) == 0; r++ {
		for si, ws := range sets {
			if len(res.Findings) > 0 {
				break // one failing transfer is enough (each further one may cost the full horizon)
			}
			v := runOnce(ws)
			n++
			if len(v) > 0 {
				res.Add(fmt.Sprintf("%s|muxreal|stream-corrupt", f.Prop), fmt.Sprintf("%v\n  writer set #%d: %+v", v, si, ws), map[string]any{"set": si})
			}
		}
	}
	res.Evaluations, res.States, res.Transitions, res.Distinct = int64(n), int64(n), int64(n), int64(len(sets))
	res.Bounds["repetitions"] = reps
	res.Sample(map[string]any{"writers": "A->B id1: one 9 MiB payload; A->B id2: 16, 1, 0, 4088, 4089, 6000 bytes", "check": "every byte stream arrives complete, in order, unmixed"})
	res.Write(f)
}
