// Harness "stublife": start / stop / restart of the plugin stub against a
// real runtime end, with the connection cut at every byte offset of the
// handshake and with every short history of Start, Stop, Wait, connection
// loss and (gated) delivery of the asynchronous close notification.
// Decides C16.
package main

import (
	"context"
	"encoding/json"
	"errors"
	"fmt"
	"io"
	"net"
	"os"
	"runtime"
	"strings"
	"sync"
	"sync/atomic"
	"time"

	"github.com/containerd/nri/pkg/adaptation"
	"github.com/containerd/nri/pkg/api"
	"github.com/containerd/nri/pkg/stub"
	"github.com/containerd/nri/pkg/zzverif/vsched"
	"github.com/sirupsen/logrus"

	"nriverif/lib/full"
	"nriverif/lib/rep"
)

const (
	regTimeout = 300 * time.Millisecond
	horizon    = 6 * time.Second // a call that has not returned by then is reported as stuck
)

var ctx = context.Background()
var evt = &api.StateChangeEvent{Pod: &api.PodSandbox{Id: "pod0"}, Container: &api.Container{Id: "c0"}}

// env is one stub object plus a real runtime end.
type env struct {
	rt      *full.Runtime
	pl      *full.Plugin
	st      stub.Stub
	closes  int32
	dialMu  sync.Mutex
	dials   int
	nextFC  func(*full.FaultConn)
	conns   []*full.FaultConn
	dialErr error
	stuck   bool

	gateMu   sync.Mutex
	gating   bool
	held     []chan struct{} // close notifications waiting at the gate
	heldSeen int32
}

func newEnv(idx string, confErr error) (*env, error) {
	rt, err := full.NewRuntime()
	if err != nil {
		return nil, err
	}
	if err := rt.Start(); err != nil {
		rt.Close()
		return nil, err
	}
	e := &env{rt: rt}
	e.pl = full.NewPlugin(idx, "life")
	if confErr != nil {
		e.pl.ConfFn = func(string, string, string) (api.EventMask, error) { return 0, confErr }
	}
	st, err := stub.New(e.pl, stub.WithPluginName("life"), stub.WithPluginIdx(idx),
		stub.WithOnClose(func() { atomic.AddInt32(&e.closes, 1) }),
		stub.WithDialer(func(string) (net.Conn, error) {
			e.dialMu.Lock()
			defer e.dialMu.Unlock()
			e.dials++
			if e.dialErr != nil {
				return nil, e.dialErr
			}
			c, err := net.Dial("unix", rt.Sock)
			if err != nil {
				return nil, err
			}
			fc := full.NewFaultConn(c)
			if e.nextFC != nil {
				e.nextFC(fc)
				e.nextFC = nil
			}
			e.conns = append(e.conns, fc)
			return fc, nil
		}))
	if err != nil {
		rt.Close()
		return nil, err
	}
	e.st = st
	vsched.SetGate("stub.connClosed", func(obj any) {
		// the gate is process-global: notifications of stubs of earlier environments (still winding
		// down) must pass straight through
		if obj != any(e.st) {
			return
		}
		e.gateMu.Lock()
		if !e.gating {
			e.gateMu.Unlock()
			return
		}
		ch := make(chan struct{})
		e.held = append(e.held, ch)
		atomic.AddInt32(&e.heldSeen, 1)
		e.gateMu.Unlock()
		<-ch
	})
	return e, nil
}

func (e *env) releaseOne() bool {
	e.gateMu.Lock()
	defer e.gateMu.Unlock()
	if len(e.held) == 0 {
		return false
	}
	close(e.held[0])
	e.held = e.held[1:]
	return true
}

func (e *env) close() {
	e.gateMu.Lock()
	e.gating = false
	for _, ch := range e.held {
		close(ch)
	}
	e.held = nil
	e.gateMu.Unlock()
	if !e.stuck {
		done := make(chan struct{})
		go func() { e.st.Stop(); close(done) }()
		select {
		case <-done:
		case <-time.After(3 * time.Second):
		}
	}
	for _, c := range e.conns {
		c.Conn.Close()
	}
	e.rt.Close()
}

// timed runs f and reports whether it returned within the horizon.
func timed(f func() error) (error, bool) {
	ch := make(chan error, 1)
	go func() { ch <- f() }()
	select {
	case err := <-ch:
		return err, true
	case <-time.After(horizon):
		return nil, false
	}
}

func stacks() string {
	buf := make([]byte, 1<<18)
	n := runtime.Stack(buf, true)
	var keep []string
	for _, g := range strings.Split(string(buf[:n]), "\n\n") {
		if strings.Contains(g, "pkg/stub.") {
			l := strings.Split(g, "\n")
			if len(l) > 14 {
				l = l[:14]
			}
			keep = append(keep, strings.Join(l, "\n"))
		}
	}
	return strings.Join(keep, "\n\n")
}

func waitFor(d time.Duration, f func() bool) bool {
	for deadline := time.Now().Add(d); time.Now().Before(deadline); time.Sleep(time.Millisecond) {
		if f() {
			return true
		}
	}
	return f()
}

// usable: a fresh Start succeeds and an event round trip works.
func (e *env) usable(what string, add func(kind, f string, a ...any)) bool {
	syncsBefore := e.pl.SyncCount()
	err, ok := timed(func() error { return e.st.Start(ctx) })
	if !ok {
		e.stuck = true
		add("restart-stuck", "%s: Start on a fresh connection did not return within %v\n%s", what, horizon, stacks())
		return false
	}
	if err != nil {
		add("restart-fails", "%s: Start on a fresh connection failed: %v", what, err)
		return false
	}
	// the runtime may still list the previous (closed) session under the same name: wait for
	// this session's own synchronization, then for its activation (events start to arrive)
	if !waitFor(5*time.Second, func() bool { return e.pl.SyncCount() > syncsBefore }) {
		add("restart-not-active", "%s: the restarted plugin was not synchronized by the runtime", what)
		return false
	}
	got := false
	for deadline := time.Now().Add(5 * time.Second); time.Now().Before(deadline) && !got; time.Sleep(2 * time.Millisecond) {
		before := len(e.pl.Calls())
		if err := e.rt.R.StartContainer(ctx, evt); err != nil {
			add("restart-event-error", "%s: event after restart failed: %v", what, err)
			return false
		}
		got = len(e.pl.Calls()) == before+1
		if len(e.pl.Calls()) > before+1 {
			add("restart-duplicate-events", "%s: one event was delivered %d times to the restarted plugin", what, len(e.pl.Calls())-before)
			return false
		}
	}
	if !got {
		add("restart-no-events", "%s: the restarted plugin did not receive events within 5 s", what)
		return false
	}
	return true
}

// ---- engine cuts ---------------------------------------------------------

type cutCase struct {
	Dir    string `json:"dir"` // read (runtime->plugin) | write (plugin->runtime) | variant name
	Offset int64  `json:"offset"`
}

func measure() (int64, int64, error) {
	e, err := newEnv("10", nil)
	if err != nil {
		return 0, 0, err
	}
	defer e.close()
	var fc *full.FaultConn
	e.nextFC = func(c *full.FaultConn) { fc = c; c.Arm(-1, -1) }
	if err := e.st.Start(ctx); err != nil {
		return 0, 0, err
	}
	if !e.pl.WaitActive(e.rt, 5*time.Second) {
		return 0, 0, errors.New("plugin did not become active")
	}
	time.Sleep(20 * time.Millisecond)
	r, w := fc.Counts()
	return r, w, nil
}

func runCut(c cutCase) (viol []string, sig string) {
	add := func(kind, f string, a ...any) {
		viol = append(viol, fmt.Sprintf(f, a...))
		if sig == "" {
			sig = "C16|cuts|" + kind
		}
	}
	idx := "10"
	var confErr error
	switch c.Dir {
	case "refused":
		idx = "7" // the runtime refuses the registration (invalid index)
	case "configure-error":
		confErr = errors.New("plugin cannot be configured")
	}
	e, err := newEnv(idx, confErr)
	if err != nil {
		return []string{"machinery: " + err.Error()}, "C16|machinery"
	}
	defer e.close()
	switch c.Dir {
	case "read":
		e.nextFC = func(fc *full.FaultConn) { fc.Arm(c.Offset, -1) }
	case "write":
		e.nextFC = func(fc *full.FaultConn) { fc.Arm(-1, c.Offset) }
	case "unreachable":
		e.dialErr = errors.New("connection refused")
	}
	what := fmt.Sprintf("%s@%d", c.Dir, c.Offset)
	serr, ok := timed(func() error { return e.st.Start(ctx) })
	if !ok {
		e.stuck = true
		add("start-stuck", "%s: Start did not return within %v\n%s", what, horizon, stacks())
		return
	}
	established := serr == nil
	if c.Dir != "read" && c.Dir != "write" && established {
		add("start-succeeded", "%s: Start succeeded although the runtime end refused / was unreachable", what)
	}
	if established {
		// the cut hits after configuration (during synchronization or later): the session is lost
		if len(e.conns) > 0 && !e.conns[0].WasCut() {
			// make sure the cut point is reached (synchronization traffic) or drop explicitly
			waitFor(300*time.Millisecond, func() bool { return e.conns[0].WasCut() })
			if !e.conns[0].WasCut() {
				e.conns[0].Conn.Close()
			}
		}
		if !waitFor(horizon, func() bool { return atomic.LoadInt32(&e.closes) >= 1 }) {
			add("close-notification-lost", "%s: the session was established and then lost but the close notification never fired\n%s", what, stacks())
		}
	}
	// waiting returns
	if _, ok := timed(func() error { e.st.Wait(); return nil }); !ok {
		add("wait-stuck", "%s: Wait did not return after the failed start / lost connection", what)
		e.stuck = true
		return
	}
	time.Sleep(5 * time.Millisecond)
	want := int32(0)
	if established {
		want = 1
	}
	// (whether a start that never established a session produces a notification is left open by the statement)
	if got := atomic.LoadInt32(&e.closes); got > 1 || (established && got != want) {
		add("close-notification-count", "%s: the close notification fired %d times, expected %d (session established: %v)", what, got, want, established)
	}
	// restart on a fresh connection
	e.dialErr = nil
	if c.Dir == "refused" || c.Dir == "configure-error" {
		return // the same stub would be refused again: nothing more to check
	}
	if e.usable(what, add) {
		if _, ok := timed(func() error { e.st.Stop(); return nil }); !ok {
			e.stuck = true
			add("stop-stuck", "%s: Stop after the restart did not return", what)
		}
	}
	return
}

func engineCuts(f *rep.Flags, res *rep.Result) {
	r, w, err := measure()
	if err != nil {
		rep.Fatal(f, "measuring the handshake: %v", err)
	}
	r2, w2, _ := measure()
	if r != r2 || w != w2 {
		rep.Fatal(f, "handshake byte counts are not reproducible: %d/%d vs %d/%d", r, w, r2, w2)
	}
	var cases []cutCase
	for k := int64(0); k < r; k++ {
		cases = append(cases, cutCase{"read", k})
	}
	for k := int64(0); k < w; k++ {
		cases = append(cases, cutCase{"write", k})
	}
	for _, v := range []string{"unreachable", "refused", "configure-error"} {
		cases = append(cases, cutCase{v, 0})
	}
	res.Bounds["handshake_bytes_runtime_to_plugin"] = r
	res.Bounds["handshake_bytes_plugin_to_runtime"] = w
	var mu sync.Mutex
	for i, c := range cases {
		if i%f.NShards != f.Shard {
			continue
		}
		v, sig := runCut(c)
		for try := 0; try < 2 && len(v) > 0; try++ {
			// believed only if it fails three times in a row
			time.Sleep(200 * time.Millisecond)
			v2, sig2 := runCut(c)
			if len(v2) == 0 {
				res.Notes = append(res.Notes, fmt.Sprintf("not reproduced on re-execution: %+v: %s", c, v[0]))
				v = nil
			} else {
				v, sig = v2, sig2
			}
		}
		if len(v) > 0 && sig == "C16|machinery" {
			res.Exhaustive = false
			res.Notes = append(res.Notes, fmt.Sprintf("case skipped, environment could not be set up: %+v: %s", c, v[0]))
			v = nil
		}
		mu.Lock()
		res.Evaluations++
		res.States++
		res.Transitions += 3
		if len(v) > 0 {
			phase := "after-configure"
			_ = phase
			res.Add(sig+"|"+c.Dir, strings.Join(v, "\n  "), map[string]any{"engine": "cuts", "case": c})
		}
		mu.Unlock()
	}
	res.Distinct = res.Evaluations
	res.Sample(map[string]any{"cut": "runtime->plugin after 57 bytes (inside the Configure request)", "expect": "Start returns an error within the horizon, Wait returns, no close notification, a restart on a fresh connection works"})
}

// ---- engine histories -----------------------------------------------------

// ops: S start on a fresh connection, T stop, W wait, D the peer drops the
// connection, R release one held close notification, U a start while the
// runtime cannot be reached (the dial fails)
func genHistories(maxLen int) []string {
	var out []string
	var rec func(cur string)
	rec = func(cur string) {
		if len(cur) > 0 {
			out = append(out, cur)
		}
		if len(cur) == maxLen {
			return
		}
		for _, o := range "STWDRU" {
			rec(cur + string(o))
		}
	}
	rec("")
	return out
}

// runHistory replays a history on a fresh stub, checking every step against the reference model.
func runHistory(h string, gating bool) (viol []string, sig string, interesting bool) {
	add := func(kind, f string, a ...any) {
		viol = append(viol, fmt.Sprintf(f, a...))
		if sig == "" {
			sig = "C16|history|" + kind
		}
	}
	e, err := newEnv("10", nil)
	if err != nil {
		return []string{"machinery: " + err.Error()}, "C16|machinery", false
	}
	defer e.close()
	e.gating = gating
	// reference model
	started := false // the stub considers itself started
	live := false    // there is an established session whose connection is up
	sessions := 0    // established sessions so far
	pending := 0     // close notifications produced and not yet delivered
	delivered := 0   // close notifications delivered
	droppedUndelivered := false
	for i, op := range h {
		what := fmt.Sprintf("history %q step %d (%c)", h, i, op)
		switch op {
		case 'S':
			if started && (live || droppedUndelivered) {
				if droppedUndelivered {
					continue // the stub cannot know yet that its connection is gone: unspecified
				}
				serr, ok := timed(func() error { return e.st.Start(ctx) })
				if !ok {
					e.stuck = true
					add("start-stuck", "%s: Start on a started stub did not return", what)
					return
				}
				if serr == nil {
					add("double-start", "%s: Start succeeded on a stub that is already started", what)
				}
				continue
			}
			if !e.usable(what, add) {
				return
			}
			started, live = true, true
			sessions++
			interesting = interesting || sessions > 1
		case 'U':
			if started && (live || droppedUndelivered) {
				continue // would be refused as "already started": covered by S
			}
			e.dialMu.Lock()
			e.dialErr = errors.New("connection refused")
			e.dialMu.Unlock()
			serr, ok := timed(func() error { return e.st.Start(ctx) })
			e.dialMu.Lock()
			e.dialErr = nil
			e.dialMu.Unlock()
			if !ok {
				e.stuck = true
				add("start-stuck", "%s: Start with an unreachable runtime did not return", what)
				return
			}
			if serr == nil {
				add("start-succeeded", "%s: Start succeeded although the runtime could not be reached", what)
				return
			}
		case 'T':
			if _, ok := timed(func() error { e.st.Stop(); return nil }); !ok {
				e.stuck = true
				add("stop-stuck", "%s: Stop did not return\n%s", what, stacks())
				return
			}
			if started && (live || droppedUndelivered) {
				if live {
					pending++
				}
				live, droppedUndelivered = false, false
			}
			started = false
		case 'W':
			if started {
				continue // would legitimately block
			}
			if _, ok := timed(func() error { e.st.Wait(); return nil }); !ok {
				e.stuck = true
				add("wait-stuck", "%s: Wait did not return although the stub is not started", what)
				return
			}
		case 'D':
			if !live {
				continue
			}
			e.conns[len(e.conns)-1].Conn.Close()
			live = false
			pending++
			if gating {
				droppedUndelivered = true
				// make sure the notification has reached the gate before going on
				want := int32(pending + delivered)
				if !waitFor(horizon, func() bool { return atomic.LoadInt32(&e.heldSeen) >= want }) {
					add("close-notification-lost", "%s: the connection was dropped but no close notification was produced", what)
					return
				}
			} else {
				if !waitFor(horizon, func() bool { return int(atomic.LoadInt32(&e.closes)) >= delivered+pending }) {
					add("close-notification-lost", "%s: the connection was dropped but the close notification did not fire\n%s", what, stacks())
					return
				}
				delivered += pending
				pending = 0
				started = false
			}
		case 'R':
			if !gating || pending == 0 {
				continue
			}
			want := int32(delivered + pending) // every notification produced so far must be at the gate
			waitFor(2*time.Second, func() bool { return atomic.LoadInt32(&e.heldSeen) >= want })
			if !e.releaseOne() {
				continue
			}
			pending--
			delivered++
			if !waitFor(horizon, func() bool { return int(atomic.LoadInt32(&e.closes)) >= delivered }) {
				add("close-notification-lost", "%s: a released close notification did not reach the plugin's OnClose", what)
				return
			}
			if droppedUndelivered && pending == 0 {
				droppedUndelivered = false
				started = false
			}
			// a late notification of an earlier session must not tear down a live later session
			if live {
				time.Sleep(3 * time.Millisecond)
				before := len(e.pl.Calls())
				err := e.rt.R.StartContainer(ctx, evt)
				if err != nil || len(e.pl.Calls()) != before+1 {
					add("late-notification-kills-session", "%s: after the late close notification of an earlier session the current session no longer receives events (err=%v)", what, err)
					return
				}
				if _, ok := timed(func() error {
					if !e.pl.WaitActive(e.rt, 2*time.Second) {
						return errors.New("inactive")
					}
					return nil
				}); !ok {
					add("late-notification-kills-session", "%s: the current session is gone after a late notification", what)
					return
				}
			}
		}
		if got := int(atomic.LoadInt32(&e.closes)); got > delivered+map[bool]int{true: 0, false: pending}[gating] {
			add("close-notification-count", "%s: OnClose fired %d times, at most %d notifications were due", what, got, delivered+pending)
			return
		}
	}
	// end: release everything, all notifications must have fired exactly once per session that ended
	e.gateMu.Lock()
	e.gating = false
	for _, ch := range e.held {
		close(ch)
	}
	e.held = nil
	e.gateMu.Unlock()
	total := delivered + pending
	if !waitFor(horizon, func() bool { return int(atomic.LoadInt32(&e.closes)) >= total }) {
		add("close-notification-lost", "history %q: %d sessions ended but OnClose fired only %d times", h, total, atomic.LoadInt32(&e.closes))
	}
	time.Sleep(3 * time.Millisecond)
	if got := int(atomic.LoadInt32(&e.closes)); got > total {
		add("close-notification-count", "history %q: OnClose fired %d times for %d ended sessions", h, got, total)
	}
	return
}

func engineHistories(f *rep.Flags, res *rep.Result) {
	maxLen := 4
	if f.Thorough() {
		maxLen = 6
	}
	hs := genHistories(maxLen)
	var mu sync.Mutex
	var wg sync.WaitGroup
	type job struct {
		h      string
		gating bool
	}
	jobs := make(chan job, 16)
	var suspects []job
	var stuck int32
	// the gate is process-global: one history at a time when gating; run the two modes in separate phases
	for _, gating := range []bool{false, true} {
		workers := 8
		if gating {
			workers = 1
		}
		jobs = make(chan job, 16)
		for w := 0; w < workers; w++ {
			wg.Add(1)
			go func() {
				defer wg.Done()
				for j := range jobs {
					if atomic.LoadInt32(&stuck) >= 3 {
						continue
					}
					v, sig, _ := runHistory(j.h, j.gating)
					if len(v) > 0 {
						mu.Lock()
						suspects = append(suspects, j)
						mu.Unlock()
						v = nil
					}
					mu.Lock()
					res.Evaluations++
					res.States += int64(len(j.h) + 1)
					res.Transitions += int64(len(j.h))
					if len(v) > 0 {
						if strings.Contains(sig, "stuck") {
							atomic.AddInt32(&stuck, 1)
						}
						mode := "immediate-notification"
						if j.gating {
							mode = "held-notification"
						}
						res.Add(sig+"|"+mode, strings.Join(v, "\n  "), map[string]any{"engine": "histories", "history": j.h, "gating": j.gating})
					}
					mu.Unlock()
				}
			}()
		}
		for i, h := range hs {
			if i%f.NShards != f.Shard {
				continue
			}
			if !gating && strings.Contains(h, "R") {
				continue // without a gate there is nothing to release
			}
			if !strings.Contains(h, "S") {
				continue
			}
			jobs <- job{h, gating}
		}
		close(jobs)
		wg.Wait()
	}
	// confirmation pass: alone, three failures in a row
	for _, j := range suspects {
		var v []string
		var sig string
		fails := 0
		for try := 0; try < 3; try++ {
			v, sig, _ = runHistory(j.h, j.gating)
			if len(v) == 0 {
				break
			}
			fails++
			time.Sleep(200 * time.Millisecond)
		}
		if fails < 3 {
			res.Notes = append(res.Notes, fmt.Sprintf("not reproduced when re-executed alone: history %q gating=%v", j.h, j.gating))
			continue
		}
		if sig == "C16|machinery" {
			res.Exhaustive = false
			continue
		}
		mode := "immediate-notification"
		if j.gating {
			mode = "held-notification"
		}
		res.Add(sig+"|"+mode, strings.Join(v, "\n  "), map[string]any{"engine": "histories", "history": j.h, "gating": j.gating})
	}
	if atomic.LoadInt32(&stuck) >= 3 {
		res.Exhaustive = false
		res.Notes = append(res.Notes, "stopped early after three stuck calls")
	}
	res.Distinct = res.Evaluations
	res.Bounds["max_history_length"] = maxLen
	res.Bounds["alphabet"] = "S start (fresh connection), T stop, W wait, D peer drops the connection, R release one held close notification, U start while the runtime is unreachable"
	res.Sample(map[string]any{"history": "STSR", "mode": "held-notification", "expect": "the close notification of session 1, delivered after session 2 started, does not end session 2"})
}

func main() {
	f := rep.ParseFlags()
	logrus.SetOutput(io.Discard)
	adaptation.SetPluginRegistrationTimeout(regTimeout)
	adaptation.SetPluginRequestTimeout(2 * time.Second)
	res := &rep.Result{Property: f.Prop, Engine: "stublife/" + f.Engine, Exhaustive: true, Bounds: map[string]any{}}
	res.Assumptions = []string{"runtime end = the real adaptation over a real unix socket; a call is reported stuck after 6 s (runtime registration timeout 300 ms)", "free-running underneath; exhaustive over cut offsets, histories and the two delivery modes of the close notification (immediately / held at a build-time gate at the entry of the stub's connection-closed handler)"}
	if f.Replay != "" {
		b, _ := os.ReadFile(f.Replay)
		var w struct {
			Property string `json:"property"`
			Replay   struct {
				Engine  string   `json:"engine"`
				Case    cutCase  `json:"case"`
				History string   `json:"history"`
				Gating  bool     `json:"gating"`
				Slow    slowCase `json:"slow"`
			} `json:"replay"`
		}
		json.Unmarshal(b, &w)
		var v []string
		if w.Replay.Engine == "cuts" {
			v, _ = runCut(w.Replay.Case)
		} else if w.Replay.Engine == "slowcfg" {
			v, _ = runSlow(w.Replay.Slow)
		} else {
			v, _, _ = runHistory(w.Replay.History, w.Replay.Gating)
		}
		for _, m := range v {
			fmt.Println("  ", m)
		}
		if len(v) > 0 {
			fmt.Printf("VIOLATION property=%s replay=%s\n", w.Property, f.Replay)
			os.Exit(1)
		}
		fmt.Println("no violation")
		return
	}
	switch f.Engine {
	case "cuts":
		res.Rule = "the stub's connection is cut after every byte offset of the handshake (connect, register, configure, synchronize) in either direction, plus unreachable runtime, refused registration, failing configuration; oracle: Start returns within the horizon, Wait returns, the close notification fires once iff a session was established, a restart on a fresh connection works and receives events; non-trivial = every case"
		engineCuts(f, res)
	case "histories":
		res.Rule = "every sequence of length <= 4 (6 thorough) over {Start, Stop, Wait, peer drop, release held notification, Start with an unreachable runtime} containing a Start, replayed on a fresh stub, in two modes (notification delivered immediately / held at a gate until released), each step checked against a reference model of the session state"
		engineHistories(f, res)
	case "slowcfg":
		res.Rule = "the session is lost (peer drop / runtime request timeout) while the plugin's Configure handler is still running; every combination of loss mode x stale handler result (nil / error) x time at which the stale handler returns (before the restart / while the restart waits for its own configuration / after the restart completed); oracle: Start #1 fails within the horizon, Start #2 returns neither success nor failure while its own session's Configure handler is held, then succeeds, the plugin receives events, and a third session is not handed the stale result either"
		engineSlowCfg(f, res)
	default:
		rep.Fatal(f, "unknown engine")
	}
	res.Write(f)
}
