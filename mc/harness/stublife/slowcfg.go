package main

import (
	"errors"
	"fmt"
	"strings"
	"sync"
	"sync/atomic"
	"time"

	"github.com/containerd/nri/pkg/api"

	"nriverif/lib/rep"
)

// Engine "slowcfg": the plugin's Configure handler is still running when the
// session is lost.  Every combination of
//   - how session 1 is lost while its handler runs (peer drop / the runtime's request timeout),
//   - what the stale handler finally returns (nil / an error),
//   - when it returns relative to the restart (before Start #2 / while Start #2 waits for
//     session 2's own configuration / only after Start #2 has completed),
//
// with the oracle: Start #1 returns an error within the horizon; Start #2 returns
// nothing - neither success nor failure - while session 2's own Configure handler
// is still running; once that handler returns, Start #2 succeeds and the plugin
// receives events.
type slowCase struct {
	Loss    string `json:"loss"`    // drop | timeout
	Stale   string `json:"stale"`   // nil | error
	Release string `json:"release"` // before | during | after
}

type cfgCall struct {
	entered chan struct{}
	release chan error
	done    chan struct{}
}

func runSlow(c slowCase) (viol []string, sig string) {
	add := func(kind, f string, a ...any) {
		viol = append(viol, fmt.Sprintf(f, a...))
		if sig == "" {
			sig = "C16|slowcfg|" + kind
		}
	}
	e, err := newEnv("10", nil)
	if err != nil {
		return []string{"machinery: " + err.Error()}, "C16|machinery"
	}
	defer e.close()
	what := fmt.Sprintf("loss=%s stale=%s release=%s", c.Loss, c.Stale, c.Release)
	var mu sync.Mutex
	calls := []*cfgCall{}
	var ncalls int32
	newCall := func() *cfgCall {
		k := &cfgCall{make(chan struct{}), make(chan error, 1), make(chan struct{})}
		mu.Lock()
		calls = append(calls, k)
		mu.Unlock()
		return k
	}
	pending := []*cfgCall{newCall(), newCall()}
	e.pl.ConfFn = func(string, string, string) (api.EventMask, error) {
		n := int(atomic.AddInt32(&ncalls, 1)) - 1
		if n >= len(pending) {
			return 0, nil
		}
		k := pending[n]
		close(k.entered)
		err := <-k.release
		close(k.done)
		return 0, err
	}
	defer func() {
		for _, k := range calls {
			select {
			case k.release <- nil:
			default:
			}
		}
	}()
	h1, h2 := pending[0], pending[1]

	// session 1: lost while its Configure handler runs
	type res struct {
		err error
	}
	s1 := make(chan res, 1)
	go func() { s1 <- res{e.st.Start(ctx)} }()
	select {
	case <-h1.entered:
	case r := <-s1:
		add("machinery", "%s: Start #1 returned (%v) before the Configure handler was entered", what, r.err)
		sig = "C16|machinery"
		return
	case <-time.After(horizon):
		add("machinery", "%s: Configure handler of session 1 never entered", what)
		sig = "C16|machinery"
		return
	}
	switch c.Loss {
	case "drop":
		e.conns[len(e.conns)-1].Conn.Close()
	case "timeout":
		// the runtime gives up on the request after its request timeout and closes the plugin
	}
	select {
	case r := <-s1:
		if r.err == nil {
			add("start-succeeded", "%s: Start #1 succeeded although the session was lost before the plugin was configured", what)
			return
		}
	case <-time.After(horizon):
		e.stuck = true
		add("start-stuck", "%s: Start did not return within %v after the session was lost while the Configure handler was running\n%s", what, horizon, stacks())
		return
	}
	stale := error(nil)
	if c.Stale == "error" {
		stale = errors.New("stale configuration failure of session 1")
	}
	if c.Release == "before" {
		h1.release <- stale
		<-h1.done
		time.Sleep(5 * time.Millisecond) // let the handler's deferred result post
	}
	// session 2 on a fresh connection; its own Configure handler is held
	s2 := make(chan res, 1)
	go func() { s2 <- res{e.st.Start(ctx)} }()
	select {
	case <-h2.entered:
	case r := <-s2:
		if r.err == nil {
			add("start-before-configured", "%s: Start #2 returned success although the plugin's Configure handler has not been called in that session", what)
		} else {
			add("restart-fails", "%s: Start #2 on a fresh connection to a healthy runtime failed before the plugin was asked to configure: %v", what, r.err)
		}
		return
	case <-time.After(horizon):
		e.stuck = true
		add("restart-stuck", "%s: Start #2: the Configure handler was not entered and Start did not return within %v\n%s", what, horizon, stacks())
		return
	}
	if c.Release == "during" {
		h1.release <- stale
		<-h1.done
	}
	// Start #2 must not return while session 2's handler is held
	select {
	case r := <-s2:
		if r.err == nil {
			add("start-before-configured", "%s: Start #2 returned success while the plugin's Configure handler of that session was still running", what)
		} else {
			add("restart-fails", "%s: Start #2 failed while the plugin's Configure handler of that session was still running: %v", what, r.err)
		}
		return
	case <-time.After(150 * time.Millisecond):
	}
	h2.release <- nil
	select {
	case r := <-s2:
		if r.err != nil {
			add("restart-fails", "%s: Start #2 failed although its Configure handler succeeded: %v", what, r.err)
			return
		}
	case <-time.After(horizon):
		e.stuck = true
		add("restart-stuck", "%s: Start #2 did not return within %v after its Configure handler returned\n%s", what, horizon, stacks())
		return
	}
	if c.Release == "after" {
		h1.release <- stale
		<-h1.done
		time.Sleep(5 * time.Millisecond)
	}
	if !e.pl.WaitActive(e.rt, 5*time.Second) {
		add("restart-not-active", "%s: the restarted plugin did not become active", what)
		return
	}
	before := len(e.pl.Calls())
	if err := e.rt.R.StartContainer(ctx, evt); err != nil || len(e.pl.Calls()) != before+1 {
		add("restart-no-events", "%s: the restarted plugin did not receive an event (err=%v, deliveries=%d)", what, err, len(e.pl.Calls())-before)
		return
	}
	if c.Release == "after" {
		// a third session must not be handed the stale result either
		if _, ok := timed(func() error { e.st.Stop(); return nil }); !ok {
			e.stuck = true
			add("stop-stuck", "%s: Stop did not return", what)
			return
		}
		if !e.usable(what+" (third session)", add) {
			return
		}
	}
	if _, ok := timed(func() error { e.st.Stop(); return nil }); !ok {
		e.stuck = true
		add("stop-stuck", "%s: Stop did not return", what)
	}
	return
}

func engineSlowCfg(f *rep.Flags, res *rep.Result) {
	var cases []slowCase
	for _, l := range []string{"drop", "timeout"} {
		for _, s := range []string{"nil", "error"} {
			for _, r := range []string{"before", "during", "after"} {
				cases = append(cases, slowCase{l, s, r})
			}
		}
	}
	for i, c := range cases {
		if i%f.NShards != f.Shard {
			continue
		}
		var v []string
		var sig string
		fails := 0
		for try := 0; try < 3; try++ {
			v, sig = runSlow(c)
			if len(v) == 0 {
				break
			}
			fails++
			time.Sleep(200 * time.Millisecond)
		}
		res.Evaluations++
		res.States += 6
		res.Transitions += 5
		if fails == 0 {
			continue
		}
		if fails < 3 {
			res.Notes = append(res.Notes, fmt.Sprintf("not reproduced three times in a row: %+v: %s", c, v))
			continue
		}
		if sig == "C16|machinery" {
			res.Exhaustive = false
			res.Notes = append(res.Notes, fmt.Sprintf("case skipped: %+v: %s", c, v[0]))
			continue
		}
		res.Add(sig+"|"+c.Release, strings.Join(v, "\n  "), map[string]any{"engine": "slowcfg", "slow": c})
	}
	res.Distinct = res.Evaluations
	res.Bounds["cases"] = len(cases)
	res.Sample(map[string]any{"case": cases[1], "expect": "Start #2 waits for session 2's own configuration; the stale result of session 1's handler reaches nobody"})
}
