// Harness "syncx": the real sender of state synchronisation
// (plugin.synchronize + recalcObjsPerSyncMsg) against the real receiver
// (stub.Synchronize / collectSync / deliverSync), joined by a transport
// seam that applies ttrpc's real message size rule without copying
// payloads. Bounded-exhaustive over object counts and size distributions.
// Decides C09.
package main

import (
	"context"
	"encoding/json"
	"errors"
	"fmt"
	"net"
	"os"
	"runtime"
	"strings"
	"sync"

	"github.com/containerd/nri/pkg/adaptation"
	"github.com/containerd/nri/pkg/api"
	"github.com/containerd/nri/pkg/stub"
	"github.com/containerd/ttrpc"
	"google.golang.org/protobuf/proto"

	"nriverif/lib/rep"
	"nriverif/lib/seam"
)

const limit = 4 << 20

var big = strings.Repeat("x", 5<<20)

// Case: object sizes in bytes (padding) for pods and containers.
type Case struct {
	Family   string `json:"family"`
	Pods     []int  `json:"pods"`
	Ctrs     []int  `json:"ctrs"`
	SpareCap bool   `json:"spare_cap"` // slices have capacity beyond their length (holding foreign objects)
	Handler  string `json:"handler"`   // "sync", "none", "error", "updates"
	// StaleAt > 0: the connection-closed notification of an EARLIER session of the same stub is
	// delivered between message StaleAt and StaleAt+1 of this synchronisation
	StaleAt int `json:"stale_at,omitempty"`
}

func (c *Case) String() string {
	st := ""
	if c.StaleAt > 0 {
		st = fmt.Sprintf(" stale-close-notification-after-message=%d", c.StaleAt)
	}
	return fmt.Sprintf("%s pods=%s ctrs=%s spare=%v handler=%s%s", c.Family, sizes(c.Pods), sizes(c.Ctrs), c.SpareCap, c.Handler, st)
}

func sizes(s []int) string {
	if len(s) > 12 {
		return fmt.Sprintf("%dx[%d..]", len(s), s[0])
	}
	return fmt.Sprint(s)
}

type syncPlugin struct {
	calls int
	pods  []*api.PodSandbox
	ctrs  []*api.Container
	ret   []*api.ContainerUpdate
	err   error
}

func (p *syncPlugin) Synchronize(_ context.Context, pods []*api.PodSandbox, ctrs []*api.Container) ([]*api.ContainerUpdate, error) {
	p.calls++
	p.pods, p.ctrs = pods, ctrs
	return p.ret, p.err
}
func (p *syncPlugin) RunPodSandbox(context.Context, *api.PodSandbox) error { return nil }

type eventOnlyPlugin struct{}

func (eventOnlyPlugin) RunPodSandbox(context.Context, *api.PodSandbox) error { return nil }

// transport is the seam: it decides like ttrpc whether the request fits,
// and hands it to the real stub otherwise.
type transport struct {
	seam.Fake
	svc       api.PluginService
	msgs      int
	horizon   int
	minReject int // smallest number of objects in a rejected message
	exceeded  bool
	envelope  int
	staleAt   int
	stale     func()
}

func varintLen(n int) int {
	l := 1
	for n >= 0x80 {
		n >>= 7
		l++
	}
	return l
}

func (t *transport) Synchronize(ctx context.Context, req *api.SynchronizeRequest) (*api.SynchronizeResponse, error) {
	if t.staleAt > 0 && t.msgs == t.staleAt && t.stale != nil {
		t.stale()
	}
	t.msgs++
	if t.msgs > t.horizon {
		t.exceeded = true
		return nil, errors.New("verif: message horizon exceeded (no progress)")
	}
	n := proto.Size(req)
	total := t.envelope + 1 + varintLen(n) + n
	if total > limit {
		if objs := len(req.Pods) + len(req.Containers); t.minReject < 0 || objs < t.minReject {
			t.minReject = objs
		}
		return nil, ttrpc.OversizedMessageError(total)
	}
	// what arrives at the other end is a copy of the lists (the objects themselves are not mutated by either side)
	cp := &api.SynchronizeRequest{More: req.More}
	cp.Pods = append([]*api.PodSandbox(nil), req.Pods...)
	cp.Containers = append([]*api.Container(nil), req.Containers...)
	return t.svc.Synchronize(ctx, cp)
}

type outcome struct {
	panicV  string
	err     error
	updates []*api.ContainerUpdate
	msgs    int
}

var lastRunOK bool // whether the last run's synchronize call returned without error

var envOnce sync.Once
var sharedEnv *seam.Env

func run(c *Case) (viol []string, sig string, msgs int) {
	envOnce.Do(func() {
		e, err := seam.NewEnv()
		if err != nil {
			panic(err)
		}
		sharedEnv = e
	})
	// runtime state
	mkPod := func(i, size int, tag string) *api.PodSandbox {
		return &api.PodSandbox{Id: fmt.Sprintf("%s%d", tag, i), Labels: map[string]string{"pad": big[:size]}}
	}
	mkCtr := func(i, size int, tag string) *api.Container {
		return &api.Container{Id: fmt.Sprintf("%s%d", tag, i), Labels: map[string]string{"pad": big[:size]}}
	}
	pods := make([]*api.PodSandbox, 0, len(c.Pods)+8)
	ctrs := make([]*api.Container, 0, len(c.Ctrs)+8)
	for i, s := range c.Pods {
		pods = append(pods, mkPod(i, s, "p"))
	}
	for i, s := range c.Ctrs {
		ctrs = append(ctrs, mkCtr(i, s, "c"))
	}
	if c.SpareCap {
		// foreign objects beyond the length: must never be transmitted
		full := pods[:cap(pods)]
		for i := len(pods); i < len(full); i++ {
			full[i] = mkPod(i, 10, "FOREIGN-p")
		}
		fullc := ctrs[:cap(ctrs)]
		for i := len(ctrs); i < len(fullc); i++ {
			fullc[i] = mkCtr(i, 10, "FOREIGN-c")
		}
	} else {
		pods = append([]*api.PodSandbox(nil), pods...)[:len(pods):len(pods)]
		ctrs = append([]*api.Container(nil), ctrs...)[:len(ctrs):len(ctrs)]
	}

	sp := &syncPlugin{}
	var pl any = sp
	switch c.Handler {
	case "none":
		pl = eventOnlyPlugin{}
	case "error":
		sp.err = errors.New("handler says no")
	case "updates":
		u1, u2 := &api.ContainerUpdate{ContainerId: "u1"}, &api.ContainerUpdate{ContainerId: "u2"}
		u1.SetLinuxMemoryLimit(111)
		u2.SetLinuxCPUShares(222)
		sp.ret = []*api.ContainerUpdate{u1, u2}
	}
	st, err := stub.New(pl, stub.WithPluginName("sync"), stub.WithPluginIdx("10"), stub.WithOnClose(func() {}))
	if err != nil {
		return []string{"stub.New: " + err.Error()}, "C09|machinery", 0
	}
	a, b := net.Pipe()
	defer b.Close()
	tr := &transport{svc: st.(api.PluginService), horizon: 4*(len(c.Pods)+len(c.Ctrs)) + 64, minReject: -1}
	tr.staleAt, tr.stale = c.StaleAt, func() { stub.VerifStaleConnClosed(st) }
	tr.envelope = proto.Size(&ttrpc.Request{Service: "nri.pkg.api.v1alpha1.Plugin", Method: "Synchronize", TimeoutNano: 1999999999})
	vp, err := adaptation.VerifConnectedPlugin(sharedEnv.R, a, "10", "sync", api.ValidEvents, tr)
	if err != nil {
		return []string{"VerifConnectedPlugin: " + err.Error()}, "C09|machinery", 0
	}
	defer vp.Close()

	var out outcome
	func() {
		defer func() {
			if p := recover(); p != nil {
				buf := make([]byte, 2048)
				n := runtime.Stack(buf, false)
				out.panicV = fmt.Sprintf("%v\n%s", p, buf[:n])
			}
		}()
		out.updates, out.err = vp.Synchronize(context.Background(), pods, ctrs)
	}()
	msgs = tr.msgs
	lastRunOK = out.err == nil && out.panicV == ""

	add := func(kind, f string, a ...any) {
		viol = append(viol, fmt.Sprintf(f, a...))
		if sig == "" {
			sig = "C09|" + kind
		}
	}
	if out.panicV != "" {
		add("panic", "synchronize panicked: %s", firstLine(out.panicV))
		return
	}
	if tr.exceeded {
		add("no-progress", "the exchange did not end within %d messages (last messages carried no progress)", tr.horizon)
	}
	if sp.calls > 1 {
		add("handler-twice", "the Synchronize handler was invoked %d times", sp.calls)
	}
	hasHandler := c.Handler != "none"
	if sp.calls == 1 {
		if d := diffPods(pods, sp.pods); d != "" {
			add("wrong-pods", "handler got the wrong pods: %s", d)
		}
		if d := diffCtrs(ctrs, sp.ctrs); d != "" {
			add("wrong-containers", "handler got the wrong containers: %s", d)
		}
	}
	if out.err == nil {
		if hasHandler && sp.calls != 1 {
			add("not-delivered", "synchronize succeeded but the handler was invoked %d times", sp.calls)
		}
		if c.Handler == "updates" && (len(out.updates) != 2 || out.updates[0].ContainerId != "u1" || out.updates[1].ContainerId != "u2") {
			add("updates-lost", "the handler's updates did not reach the runtime: %v", out.updates)
		}
		if c.Handler != "updates" && len(out.updates) != 0 {
			add("updates-invented", "runtime got updates %v", out.updates)
		}
	} else {
		if c.Handler == "error" && sp.calls == 1 {
			// the handler's own error is relayed: fine
		} else if tr.exceeded {
		} else {
			if sp.calls != 0 {
				add("delivered-on-failure", "synchronize failed (%v) although the handler was invoked", out.err)
			}
			// a failure is legitimate only if the state "cannot be transmitted": the transport
			// rejected a message that was already at the implementation's minimum chunk (<= 8 objects).
			// Which states of few large objects the implementation refuses beyond that is left open by
			// the statement (a sharper rule - "every chunk of 4 pods + 4 containers would have fitted" -
			// is not met by the unchanged tree either: it gives up as soon as a rejected message has
			// 8 objects, however they are split between the lists)
			if tr.minReject < 0 || tr.minReject > 8 {
				add("spurious-failure", "synchronize failed (%v) although no message of <= 8 objects was ever rejected (smallest rejected message: %d objects)", out.err, tr.minReject)
			}
		}
		if out.err != nil && c.Handler != "error" && !vp.IsClosed() {
			add("not-closed", "synchronize failed but the plugin connection was not closed")
		}
	}
	return
}

func firstLine(s string) string {
	if i := strings.Index(s, "\n"); i > 0 {
		return s[:i]
	}
	return s
}

func diffPods(exp, got []*api.PodSandbox) string {
	if len(exp) != len(got) {
		return fmt.Sprintf("%d pods delivered, %d supplied%s", len(got), len(exp), foreign(got))
	}
	for i := range exp {
		if exp[i] != got[i] && exp[i].Id != got[i].Id {
			return fmt.Sprintf("position %d: %s instead of %s", i, got[i].Id, exp[i].Id)
		}
	}
	return ""
}

func foreign(got []*api.PodSandbox) string {
	for _, p := range got {
		if p != nil && strings.HasPrefix(p.Id, "FOREIGN") {
			return " (objects from beyond the end of the runtime's list were transmitted)"
		}
	}
	return ""
}

func diffCtrs(exp, got []*api.Container) string {
	if len(exp) != len(got) {
		f := ""
		for _, c := range got {
			if c != nil && strings.HasPrefix(c.Id, "FOREIGN") {
				f = " (objects from beyond the end of the runtime's list were transmitted)"
			}
		}
		return fmt.Sprintf("%d containers delivered, %d supplied%s", len(got), len(exp), f)
	}
	for i := range exp {
		if exp[i] != got[i] && exp[i].Id != got[i].Id {
			return fmt.Sprintf("position %d: %s instead of %s", i, got[i].Id, exp[i].Id)
		}
	}
	return ""
}

func rep1(n, size int) []int {
	s := make([]int, n)
	for i := range s {
		s[i] = size
	}
	return s
}

func generate(f *rep.Flags, bounds map[string]any, emit func(*Case)) {
	cnt := map[string]int{}
	out := func(c *Case) { cnt[c.Family]++; emit(c) }
	handlers := []string{"sync", "updates"}
	// uniform sizes, small counts
	maxN := 12
	uni := []int{10, 300 << 10, 700 << 10, 1300 << 10, 3900 << 10}
	for p := 0; p <= maxN; p++ {
		for c := 0; c <= maxN; c++ {
			for _, s := range uni {
				for _, spare := range []bool{false, true} {
					out(&Case{Family: "uniform", Pods: rep1(p, s), Ctrs: rep1(c, s), SpareCap: spare, Handler: handlers[(p+c)%2]})
				}
			}
		}
	}
	// every size vector over three sizes for few objects
	vs := []int{10, 600 << 10, 2100 << 10}
	maxP, maxC := 2, 5
	if f.Thorough() {
		maxP, maxC = 3, 7
		maxN = 24
	}
	var vec func(n int, cur []int, fn func([]int))
	vec = func(n int, cur []int, fn func([]int)) {
		if len(cur) == n {
			fn(append([]int(nil), cur...))
			return
		}
		for _, v := range vs {
			vec(n, append(cur, v), fn)
		}
	}
	for p := 0; p <= maxP; p++ {
		for c := 0; c <= maxC; c++ {
			vec(p, nil, func(ps []int) {
				vec(c, nil, func(cs []int) {
					out(&Case{Family: "vectors", Pods: ps, Ctrs: cs, SpareCap: (len(ps)+len(cs))%2 == 0, Handler: "sync"})
				})
			})
		}
	}
	if f.Thorough() {
		// four sizes (one just below the limit) for fewer objects
		vs4 := []int{10, 600 << 10, 2100 << 10, 4000 << 10}
		var vec4 func(n int, cur []int, fn func([]int))
		vec4 = func(n int, cur []int, fn func([]int)) {
			if len(cur) == n {
				fn(append([]int(nil), cur...))
				return
			}
			for _, v := range vs4 {
				vec4(n, append(cur, v), fn)
			}
		}
		for p := 0; p <= 2; p++ {
			for c := 0; c <= 5; c++ {
				vec4(p, nil, func(ps []int) {
					vec4(c, nil, func(cs []int) {
						out(&Case{Family: "vectors4", Pods: ps, Ctrs: cs, SpareCap: (len(ps)+len(cs))%2 == 1, Handler: "sync"})
					})
				})
			}
		}
	}
	// objects sized around limit/n: n of them just fit / just do not fit into one message
	maxK := 16
	if f.Thorough() {
		maxK = 48
	}
	for n := 1; n <= maxK; n++ {
		for _, d := range []int{-(limit / n / 50), -200, -64, -8, 0, 8, 64, 200, limit / n / 50} {
			sz := limit/n + d
			if sz < 1 || sz > 4100<<10 {
				continue
			}
			for _, total := range []int{n - 1, n, n + 1, 2 * n, 2*n + 1} {
				if total < 1 || (!f.Thorough() && total > 2*n) {
					continue
				}
				for split := 0; split < 3; split++ {
					np := []int{0, total, total / 2}[split]
					out(&Case{Family: "near-limit", Pods: rep1(np, sz), Ctrs: rep1(total-np, sz), SpareCap: (n+split)%2 == 0, Handler: "sync"})
				}
			}
		}
	}
	// a few large objects in one list and thousands of small ones in the other (the first oversized
	// message scales one list's share to zero; what is left of it is later sent as "everything left",
	// which can itself be too big for one message), both ways round
	nLarge := []int{9, 10}
	szLarge := []int{400 << 10, 450 << 10, 500 << 10}
	nSmall := []int{1500, 4000}
	if f.Thorough() {
		nLarge = []int{9, 10, 11, 12, 16}
		szLarge = []int{380 << 10, 400 << 10, 420 << 10, 450 << 10, 480 << 10, 500 << 10, 520 << 10}
		nSmall = []int{1500, 4000, 4500}
	}
	for _, nl := range nLarge {
		for _, sl := range szLarge {
			for _, ns := range nSmall {
				out(&Case{Family: "zero-share", Pods: rep1(nl, sl), Ctrs: rep1(ns, 10<<10), SpareCap: nl%2 == 0, Handler: "sync"})
				out(&Case{Family: "zero-share", Pods: rep1(ns, 10<<10), Ctrs: rep1(nl, sl), SpareCap: nl%2 == 1, Handler: "sync"})
			}
		}
	}
	// large counts
	counts := []int{0, 1, 2, 3, 7, 8, 9, 100, 1000, 3000}
	osz := []int{100, 1 << 10, 5 << 10, 100 << 10}
	for _, p := range counts {
		for _, c := range counts {
			for _, s := range osz {
				out(&Case{Family: "large", Pods: rep1(p, s), Ctrs: rep1(c, s), SpareCap: (p+c)%2 == 1, Handler: "sync"})
			}
		}
	}
	// mixed: many small plus a few large objects at every position class
	for _, n := range []int{20, 200} {
		for _, bigN := range []int{1, 3, 9} {
			for _, where := range []string{"front", "back", "spread"} {
				ps, cs := rep1(n, 2<<10), rep1(n, 2<<10)
				for k := 0; k < bigN; k++ {
					var i int
					switch where {
					case "front":
						i = k
					case "back":
						i = n - 1 - k
					default:
						i = k * n / bigN
					}
					cs[i] = 1500 << 10
				}
				out(&Case{Family: "mixed", Pods: ps, Ctrs: cs, SpareCap: true, Handler: "sync"})
			}
		}
	}
	// handler variants
	for _, h := range []string{"none", "error", "updates", "sync"} {
		for _, shape := range [][2]int{{0, 0}, {1, 1}, {3, 30}, {30, 3}} {
			for _, s := range []int{10, 400 << 10} {
				out(&Case{Family: "handlers", Pods: rep1(shape[0], s), Ctrs: rep1(shape[1], s), Handler: h})
			}
		}
	}
	for k, v := range cnt {
		bounds["cases_"+k] = v
	}
}

func main() {
	f := rep.ParseFlags()
	res := &rep.Result{Property: f.Prop, Engine: "syncx", Exhaustive: true, Bounds: map[string]any{},
		Rule:        "every state = (pod sizes, container sizes, slice capacity variant, handler variant) from the families uniform [0..12]^2 x 5 sizes, all size vectors over {tiny,0.6MiB,2.1MiB}, large counts up to 3000, mixed, handlers; each run through the real sender and the real receiver with ttrpc's real size rule; non-trivial = the state needs more than one message; distinct by construction",
		Assumptions: []string{"transport seam: computes the exact encoded length of the ttrpc request envelope and rejects like ttrpc (exported OversizedMessageError, real 4 MiB limit) without copying payloads; a full-stack family with real payloads is part of the transport harness"}}
	if f.Replay != "" {
		b, err := os.ReadFile(f.Replay)
		if err != nil {
			rep.Fatal(f, "%v", err)
		}
		var w struct {
			Property  string `json:"property"`
			Engine    string `json:"engine"`
			Signature string `json:"signature"`
			Replay    Case   `json:"replay"`
		}
		if err := json.Unmarshal(b, &w); err != nil {
			rep.Fatal(f, "%v", err)
		}
		if strings.HasSuffix(w.Engine, "full") {
			// the full-stack families are a short fixed list: run them again and look for the finding
			fr := &rep.Result{Property: w.Property, Engine: "syncx/full", Exhaustive: true, Bounds: map[string]any{}}
			engineFull(f, fr)
			for _, x := range fr.Findings {
				if x.Signature == w.Signature {
					fmt.Printf("FINDING %s: %s\nVIOLATION property=%s replay=%s\n", x.Signature, x.Message, w.Property, f.Replay)
					os.Exit(1)
				}
			}
			fmt.Println("no violation")
			return
		}
		v, sig, msgs := run(&w.Replay)
		fmt.Printf("case: %s\nmessages: %d\n", w.Replay.String(), msgs)
		for _, m := range v {
			fmt.Println("  ", m)
		}
		if len(v) > 0 {
			fmt.Printf("FINDING %s\nVIOLATION property=%s replay=%s\n", sig, w.Property, f.Replay)
			os.Exit(1)
		}
		fmt.Println("no violation")
		return
	}
	if f.Engine == "full" {
		res.Engine = "syncx/full"
		res.Rule = "real multi-MiB runtime states through socket, mux, ttrpc and the real accept loop; each compared with the transport seam's prediction; failed synchronisations followed by a re-registration of the same stub"
		engineFull(f, res)
		res.Write(f)
		return
	}
	multi := int64(0)
	k := 0
	staleRuns := 0
	staleBudget := 400 // quick: the first 400 boundaries met; thorough: all
	if f.Thorough() {
		staleBudget = -1
	}
	generate(f, res.Bounds, func(c *Case) {
		v, sig, msgs := run(c)
		res.Evaluations++
		res.States += int64(msgs + 1)
		res.Transitions += int64(msgs)
		if msgs > 1 {
			multi++
		}
		k++
		if k%3000 == 7 {
			res.Sample(map[string]any{"case": c.String(), "messages": msgs})
		}
		report := func(c *Case, v []string, sig string) {
			shape := "few-large"
			if len(c.Pods)+len(c.Ctrs) > 40 {
				shape = "many-small"
			}
			if c.StaleAt > 0 {
				shape += "|stale-close-notification"
			}
			res.Add(sig+"|"+shape, strings.Join(v, "\n  ")+"\n  case: "+c.String(), c)
		}
		if len(v) > 0 {
			report(c, v, sig)
			return
		}
		// a split synchronisation: the late close notification of an earlier session of the same stub
		// arrives between two messages (every boundary up to 4, then the last one)
		if msgs > 1 && lastRunOK && staleBudget != 0 {
			for at := 1; at < msgs; at++ {
				if at > 4 && at != msgs-1 {
					continue
				}
				if staleBudget > 0 {
					staleBudget--
				}
				c2 := *c
				c2.StaleAt = at
				v2, sig2, m2 := run(&c2)
				res.Evaluations++
				res.States += int64(m2 + 1)
				res.Transitions += int64(m2 + 1)
				staleRuns++
				if len(v2) > 0 {
					report(&c2, v2, sig2)
				}
			}
		}
	})
	res.Bounds["runs_with_a_stale_close_notification_between_two_messages"] = staleRuns
	res.Distinct = multi
	res.Write(f)
}
