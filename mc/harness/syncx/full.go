package main

import (
	"context"
	"fmt"
	"strings"
	"sync"
	"sync/atomic"
	"time"

	"github.com/containerd/nri/pkg/adaptation"
	"github.com/containerd/nri/pkg/api"
	"github.com/containerd/nri/pkg/stub"
	"github.com/containerd/nri/pkg/zzverif/vsched"
	"github.com/containerd/ttrpc"

	"nriverif/lib/full"
	"nriverif/lib/rep"
)

// Full-stack family of C09: real multi-MiB payloads through socket, mux,
// ttrpc and the real accept loop. Ties the transport seam to ttrpc's real
// behaviour and checks what the seam cannot: a failed synchronisation
// leaves the plugin inactive and the runtime alive, and a stub whose split
// synchronisation failed half-way starts clean when it registers again.

func mkState(pods, ctrs []int) ([]*api.PodSandbox, []*api.Container) {
	var ps []*api.PodSandbox
	var cs []*api.Container
	for i, s := range pods {
		ps = append(ps, &api.PodSandbox{Id: fmt.Sprintf("p%d", i), Labels: map[string]string{"pad": big[:s]}})
	}
	for i, s := range ctrs {
		cs = append(cs, &api.Container{Id: fmt.Sprintf("c%d", i), Labels: map[string]string{"pad": big[:s]}})
	}
	return ps, cs
}

func ids(n int, tag string) string {
	var s []string
	for i := 0; i < n; i++ {
		s = append(s, fmt.Sprintf("%s%d", tag, i))
	}
	return strings.Join(s, ",")
}

func engineFull(f *rep.Flags, res *rep.Result) {
	adaptation.SetPluginRegistrationTimeout(5 * time.Second)
	adaptation.SetPluginRequestTimeout(20 * time.Second)
	fail := func(sig, m string, a ...any) {
		res.Add("C09|full|"+sig, fmt.Sprintf(m, a...), map[string]any{"signature": sig})
	}
	type st struct{ pods, ctrs []int }
	states := []st{
		{nil, nil}, {rep1(3, 10), rep1(5, 10)}, {rep1(2, 1<<20), rep1(20, 1<<20)}, {nil, rep1(9, 700<<10)},
		{rep1(1, 100<<10), rep1(100, 100<<10)}, {rep1(100, 30<<10), rep1(100, 30<<10)}, {rep1(3, 400<<10), rep1(30, 400<<10)},
		{rep1(1, 3900<<10), rep1(1, 3900<<10)}, {rep1(1, 4300<<10), nil}, {rep1(10, 600<<10), rep1(10, 600<<10)},
		{append(rep1(10, 10), rep1(10, 600<<10)...), append(rep1(10, 10), rep1(10, 600<<10)...)},
		{rep1(1000, 5<<10), rep1(1000, 5<<10)}, {rep1(7, 1<<20), rep1(2, 10)},
	}
	if f.Thorough() {
		for _, n := range []int{4, 8, 9, 16} {
			for _, s := range []int{300 << 10, 1300 << 10} {
				states = append(states, st{rep1(n, s), rep1(n/2, s)}, st{rep1(1, s), rep1(n, s)})
			}
		}
	}
	for i, s := range states {
		// what the seam predicts
		c := &Case{Family: "full", Pods: s.pods, Ctrs: s.ctrs, Handler: "sync"}
		sv, _, _ := run(c)
		seamOK := true
		for _, m := range sv {
			if strings.Contains(m, "spurious") || strings.Contains(m, "panicked") || strings.Contains(m, "no-progress") {
				seamOK = false
			}
		}
		_ = seamOK
		rt, err := full.NewRuntime()
		if err != nil {
			rep.Fatal(f, "%v", err)
		}
		rt.Pods, rt.Ctrs = mkState(s.pods, s.ctrs)
		if err := rt.Start(); err != nil {
			rep.Fatal(f, "%v", err)
		}
		pl := full.NewPlugin("10", fmt.Sprintf("s%d", i))
		serr := pl.StartDial(rt)
		res.Evaluations++
		res.States++
		desc := fmt.Sprintf("pods=%s ctrs=%s", sizes(s.pods), sizes(s.ctrs))
		if serr != nil {
			fail("start", "%s: stub failed to start: %v", desc, serr)
			rt.Close()
			continue
		}
		// wait for the outcome of the synchronisation at the runtime
		ok := false
		for deadline := time.Now().Add(30 * time.Second); time.Now().Before(deadline); time.Sleep(2 * time.Millisecond) {
			if pl.WaitActive(rt, 0) || pl.ClosedCount() > 0 {
				ok = true
				break
			}
		}
		if !ok {
			fail("undecided", "%s: the plugin is neither active nor dropped after 30 s", desc)
		}
		active := pl.WaitActive(rt, 50*time.Millisecond)
		// seam verdict for the same state: does the exchange succeed?
		tr := seamSucceeds(c)
		res.Transitions++
		if active != tr {
			fail("seam-vs-real", "%s: the transport seam predicts success=%v but over real ttrpc the plugin became active=%v", desc, tr, active)
		}
		if active {
			if pl.SyncCount() != 1 {
				fail("handler-count", "%s: the Synchronize handler ran %d times", desc, pl.SyncCount())
			} else {
				gp, gc := pl.SyncIDs(0)
				if strings.Join(gp, ",") != ids(len(s.pods), "p") || strings.Join(gc, ",") != ids(len(s.ctrs), "c") {
					fail("wrong-state", "%s: the handler got %d pods / %d containers (or in the wrong order)", desc, len(gp), len(gc))
				}
			}
		} else {
			if pl.SyncCount() != 0 {
				fail("delivered-on-failure", "%s: synchronisation failed but the handler was invoked", desc)
			}
			before := len(pl.Calls())
			if err := rt.R.StartContainer(context.Background(), &api.StateChangeEvent{Pod: &api.PodSandbox{Id: "p"}, Container: &api.Container{Id: "c"}}); err != nil {
				fail("runtime-broken", "%s: an event after the failed synchronisation failed: %v", desc, err)
			}
			if len(pl.Calls()) != before {
				fail("inactive-plugin-got-event", "%s: the plugin whose synchronisation failed received an event", desc)
			}
			// the same stub registers again once the runtime's state is transmittable: it must start clean
			rt.Pods, rt.Ctrs = mkState(rep1(2, 10), rep1(3, 10))
			pl.Stub.Stop()
			time.Sleep(20 * time.Millisecond)
			if err := pl.Restart(); err != nil {
				fail("restart", "%s: restarting the stub after the failed synchronisation failed: %v", desc, err)
			} else if !pl.WaitActive(rt, 10*time.Second) {
				fail("restart", "%s: the restarted stub did not become active", desc)
			} else {
				n := pl.SyncCount()
				gp, gc := pl.SyncIDs(n - 1)
				if strings.Join(gp, ",") != "p0,p1" || strings.Join(gc, ",") != "c0,c1,c2" {
					fail("stale-chunks-after-restart", "%s: after a failed split synchronisation the re-registered plugin was handed %d pods / %d containers instead of the runtime's current 2 / 3 (chunks of the aborted exchange survived)", desc, len(gp), len(gc))
				}
			}
		}
		pl.Stub.Stop()
		rt.Close()
	}
	// the plugin stops in the middle of a split synchronisation (after part k of the state was
	// collected) and starts again at once; the earlier session's connection-closed notification is
	// delivered as it comes or held at the gate until the new session was synchronised
	type midCase struct {
		s         st
		stopAfter int
	}
	big := st{rep1(300, 30<<10), rep1(300, 30<<10)} // 18 MiB: at least five parts
	midCases := []midCase{{st{rep1(100, 30<<10), rep1(100, 30<<10)}, 1}, {st{rep1(20, 100<<10), rep1(60, 100<<10)}, 1}, {big, 1}, {big, 2}, {big, 3}}
	for _, mc := range midCases {
		s, stopAfter := mc.s, mc.stopAfter
		for _, held := range []bool{false, true} {
			desc := fmt.Sprintf("pods=%s ctrs=%s, plugin stopped after part %d of the split synchronisation and restarted (earlier notification held: %v)", sizes(s.pods), sizes(s.ctrs), stopAfter, held)
			res.Evaluations++
			res.States++
			res.Transitions += 3
			if msg, machinery := runMidSplit(s.pods, s.ctrs, stopAfter, held); msg != "" {
				if machinery {
					res.Exhaustive = false
					res.Notes = append(res.Notes, "case skipped: "+desc+": "+msg)
				} else {
					fail("stale-chunks-after-restart|stopped-mid-split", "%s: %s", desc, msg)
				}
			}
		}
	}
	res.Distinct = res.Evaluations
	res.Bounds["full_stack_states"] = len(states)
	res.Bounds["stopped_mid_split_cases"] = len(midCases) * 2
	res.Sample(map[string]any{"state": "10 tiny + 10 x 600 KiB pods and containers", "expect": "fails cleanly after the tiny objects were chunked; plugin inactive; after the runtime's state shrinks the same stub re-registers and is handed exactly the new state"})
}

// seamSucceeds tells whether the seam-level exchange for the case succeeds.
func seamSucceeds(c *Case) bool {
	okc := *c
	okc.Handler = "sync"
	v, _, _ := run(&okc)
	for _, m := range v {
		_ = m
	}
	return lastRunOK
}

// runMidSplit: see engineFull. Returns a violation message (or a machinery problem).
func runMidSplit(pods, ctrs []int, stopAfter int, held bool) (msg string, machinery bool) {
	rt, err := full.NewRuntime()
	if err != nil {
		return err.Error(), true
	}
	defer rt.Close()
	rt.Pods, rt.Ctrs = mkState(pods, ctrs)
	if err := rt.Start(); err != nil {
		return err.Error(), true
	}
	pl := full.NewPlugin("10", "mid")
	var parts int32
	reached := make(chan struct{})
	var once sync.Once
	icpt := ttrpc.WithUnaryServerInterceptor(func(ctx context.Context, um ttrpc.Unmarshaler, info *ttrpc.UnaryServerInfo, method ttrpc.Method) (interface{}, error) {
		resp, err := method(ctx, um)
		if strings.HasSuffix(info.FullMethod, "Synchronize") {
			if int(atomic.AddInt32(&parts, 1)) == stopAfter {
				once.Do(func() { close(reached) })
			}
		}
		return resp, err
	})
	var gmu sync.Mutex
	var heldC []chan struct{}
	gating := held
	vsched.SetGate("stub.connClosed", func(obj any) {
		if pl.Stub == nil || obj != any(pl.Stub) {
			return
		}
		gmu.Lock()
		if !gating {
			gmu.Unlock()
			return
		}
		ch := make(chan struct{})
		heldC = append(heldC, ch)
		gmu.Unlock()
		<-ch
	})
	release := func() {
		gmu.Lock()
		gating = false
		for _, ch := range heldC {
			close(ch)
		}
		heldC = nil
		gmu.Unlock()
	}
	defer func() {
		release()
		if pl.Stub != nil {
			pl.Stub.Stop()
		}
	}()
	if err := pl.StartDial(rt, stub.WithTTRPCOptions(nil, []ttrpc.ServerOpt{icpt})); err != nil {
		return "start: " + err.Error(), true
	}
	select {
	case <-reached:
	case <-time.After(20 * time.Second):
		return fmt.Sprintf("part %d of the synchronisation never arrived (state not split?); parts seen %d, handler calls %d, closed %d, active %v", stopAfter, atomic.LoadInt32(&parts), pl.SyncCount(), pl.ClosedCount(), pl.WaitActive(rt, 0)), true
	}
	if pl.SyncCount() != 0 {
		return "the state was delivered before the last part (not split)", true
	}
	pl.Stub.Stop()
	if err := pl.Restart(); err != nil {
		return "restarting the stub failed: " + err.Error(), false
	}
	ok := false
	for deadline := time.Now().Add(30 * time.Second); time.Now().Before(deadline) && !ok; time.Sleep(2 * time.Millisecond) {
		ok = pl.SyncCount() > 0
	}
	release()
	if !ok {
		return "the restarted plugin was not synchronised within 30 s", false
	}
	if n := pl.SyncCount(); n != 1 {
		return fmt.Sprintf("the Synchronize handler ran %d times", n), false
	}
	gp, gc := pl.SyncIDs(0)
	if strings.Join(gp, ",") != ids(len(pods), "p") || strings.Join(gc, ",") != ids(len(ctrs), "c") {
		return fmt.Sprintf("the re-registered plugin was handed %d pods / %d containers instead of the runtime's %d / %d (parts collected in the aborted session survived)", len(gp), len(gc), len(pods), len(ctrs)), false
	}
	return "", false
}
