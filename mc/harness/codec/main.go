// Harness "codec": bounded-exhaustive differential check of the two
// generated wire codecs of every protocol message (protoimpl vs vtproto).
// Decides C12.
package main

import (
	"bytes"
	"encoding/hex"
	"encoding/json"
	"fmt"
	"math"
	"os"
	"sort"
	"strings"

	"github.com/containerd/nri/pkg/api"
	"google.golang.org/protobuf/proto"
	"google.golang.org/protobuf/reflect/protoreflect"
	"google.golang.org/protobuf/reflect/protoregistry"

	"nriverif/lib/rep"
)

type vtMessage interface {
	proto.Message
	MarshalVT() ([]byte, error)
	UnmarshalVT([]byte) error
	SizeVT() int
}

// setter puts one value of a field into a message
type setter struct {
	desc string
	set  func(m protoreflect.Message)
}

func scalarValues(fd protoreflect.FieldDescriptor, reduced bool) []protoreflect.Value {
	var vs []protoreflect.Value
	switch fd.Kind() {
	case protoreflect.BoolKind:
		vs = []protoreflect.Value{protoreflect.ValueOfBool(true), protoreflect.ValueOfBool(false)}
	case protoreflect.Int32Kind, protoreflect.Sint32Kind, protoreflect.Sfixed32Kind:
		for _, x := range []int32{1, -1, math.MinInt32, math.MaxInt32, 0, 300} {
			vs = append(vs, protoreflect.ValueOfInt32(x))
		}
	case protoreflect.Int64Kind, protoreflect.Sint64Kind, protoreflect.Sfixed64Kind:
		for _, x := range []int64{1, -1, math.MinInt64, math.MaxInt64, 0, 1 << 35} {
			vs = append(vs, protoreflect.ValueOfInt64(x))
		}
	case protoreflect.Uint32Kind, protoreflect.Fixed32Kind:
		for _, x := range []uint32{1, math.MaxUint32, 0, 128, 1 << 31} {
			vs = append(vs, protoreflect.ValueOfUint32(x))
		}
	case protoreflect.Uint64Kind, protoreflect.Fixed64Kind:
		for _, x := range []uint64{1, math.MaxUint64, 0, 1 << 63} {
			vs = append(vs, protoreflect.ValueOfUint64(x))
		}
	case protoreflect.StringKind:
		// (valid UTF-8 only; incl. the replacement character, the last code point, a NUL and a 4-byte rune)
		for _, x := range []string{"a", "", "héllo 世界", "\ufffd-\U0010ffff-\x00-\U0001f600", strings.Repeat("x", 200)} {
			vs = append(vs, protoreflect.ValueOfString(x))
		}
	case protoreflect.BytesKind:
		for _, x := range [][]byte{{0}, {}, {0xff, 0x00, 0x7f}} {
			vs = append(vs, protoreflect.ValueOfBytes(x))
		}
	case protoreflect.EnumKind:
		n := fd.Enum().Values().Len()
		for _, x := range []int{1, 0, n - 1, 99} {
			vs = append(vs, protoreflect.ValueOfEnum(protoreflect.EnumNumber(x)))
		}
	case protoreflect.DoubleKind:
		vs = []protoreflect.Value{protoreflect.ValueOfFloat64(1.5), protoreflect.ValueOfFloat64(0)}
	case protoreflect.FloatKind:
		vs = []protoreflect.Value{protoreflect.ValueOfFloat32(1.5), protoreflect.ValueOfFloat32(0)}
	}
	if reduced && len(vs) > 3 {
		vs = vs[:3]
	}
	return vs
}

// instances of a message type: empty, every single field value, the all-set one
func subInstances(md protoreflect.MessageDescriptor, depth int, reduced bool) []func() protoreflect.Message {
	mt, err := protoregistry.GlobalTypes.FindMessageByName(md.FullName())
	if err != nil {
		panic(err)
	}
	out := []func() protoreflect.Message{func() protoreflect.Message { return mt.New() }}
	if depth <= 0 {
		return out
	}
	fds := md.Fields()
	for i := 0; i < fds.Len(); i++ {
		for _, st := range fieldSetters(fds.Get(i), depth-1, true) {
			st := st
			out = append(out, func() protoreflect.Message { m := mt.New(); st.set(m); return m })
			if reduced && len(out) > 6 {
				break
			}
		}
	}
	out = append(out, func() protoreflect.Message { return allSet(mt, depth-1) })
	return out
}

func allSet(mt protoreflect.MessageType, depth int) protoreflect.Message {
	m := mt.New()
	fds := m.Descriptor().Fields()
	for i := 0; i < fds.Len(); i++ {
		sts := fieldSetters(fds.Get(i), depth, true)
		if len(sts) > 0 {
			sts[len(sts)-1].set(m)
		}
	}
	return m
}

func fieldSetters(fd protoreflect.FieldDescriptor, depth int, reduced bool) []setter {
	name := string(fd.Name())
	var out []setter
	switch {
	case fd.IsMap():
		kd, vd := fd.MapKey(), fd.MapValue()
		kvs := scalarValues(kd, false)
		var vvs []func() protoreflect.Value
		if vd.Kind() == protoreflect.MessageKind {
			for _, mk := range subInstances(vd.Message(), depth, true) {
				mk := mk
				vvs = append(vvs, func() protoreflect.Value { return protoreflect.ValueOfMessage(mk()) })
			}
		} else {
			for _, v := range scalarValues(vd, false) {
				v := v
				vvs = append(vvs, func() protoreflect.Value { return v })
			}
		}
		mk := func(desc string, entries ...[2]int) setter {
			return setter{name + "=" + desc, func(m protoreflect.Message) {
				mp := m.Mutable(fd).Map()
				for _, e := range entries {
					mp.Set(kvs[e[0]%len(kvs)].MapKey(), vvs[e[1]%len(vvs)]())
				}
			}}
		}
		out = append(out, mk("{k:v}", [2]int{0, 0}), mk("{'':''}", [2]int{1, 1}), mk("{2 keys}", [2]int{0, 2}, [2]int{2, 0}),
			mk("{a:x, long:''}", [2]int{0, 0}, [2]int{3, 1}), mk("{'':x, a:''}", [2]int{1, 2}, [2]int{0, 1}))
		if !reduced {
			out = append(out, mk("{3 keys}", [2]int{0, 1}, [2]int{1, 2}, [2]int{2, 3}))
		}
	case fd.IsList():
		var elems []func() protoreflect.Value
		if fd.Kind() == protoreflect.MessageKind {
			for _, mk := range subInstances(fd.Message(), depth, true) {
				mk := mk
				elems = append(elems, func() protoreflect.Value { return protoreflect.ValueOfMessage(mk()) })
			}
		} else {
			for _, v := range scalarValues(fd, false) {
				v := v
				elems = append(elems, func() protoreflect.Value { return v })
			}
		}
		mk := func(desc string, idx ...int) setter {
			return setter{name + "=" + desc, func(m protoreflect.Message) {
				l := m.Mutable(fd).List()
				for _, i := range idx {
					l.Append(elems[i%len(elems)]())
				}
			}}
		}
		out = append(out, mk("[x]", 0), mk("[zero]", 1), mk("[x,y]", 0, 2))
		if !reduced {
			for i := range elems {
				out = append(out, mk(fmt.Sprintf("[e%d]", i), i))
			}
			out = append(out, mk("[x,x,y]", 0, 0, len(elems)-1))
		}
	case fd.Kind() == protoreflect.MessageKind:
		for i, mk := range subInstances(fd.Message(), depth, reduced) {
			mk := mk
			out = append(out, setter{fmt.Sprintf("%s=msg#%d", name, i), func(m protoreflect.Message) { m.Set(fd, protoreflect.ValueOfMessage(mk())) }})
		}
	default:
		for _, v := range scalarValues(fd, reduced) {
			v := v
			out = append(out, setter{fmt.Sprintf("%s=%v", name, v.Interface()), func(m protoreflect.Message) { m.Set(fd, v) }})
		}
	}
	return out
}

// growable returns a function that sets some string (or bytes) reachable in m to a value of the
// given length (depth-first: a direct string field, a string list, a string-valued map, or a string
// inside a singular sub-message), or nil if the message has none.
func growable(m protoreflect.Message) func(protoreflect.Message, int) {
	fds := m.Descriptor().Fields()
	for i := 0; i < fds.Len(); i++ {
		fd := fds.Get(i)
		switch {
		case fd.IsMap():
			if fd.MapValue().Kind() == protoreflect.StringKind && fd.MapKey().Kind() == protoreflect.StringKind {
				return func(x protoreflect.Message, n int) {
					x.Mutable(fd).Map().Set(protoreflect.ValueOfString("k").MapKey(), protoreflect.ValueOfString(strings.Repeat("p", n)))
				}
			}
		case fd.IsList():
			if fd.Kind() == protoreflect.StringKind {
				return func(x protoreflect.Message, n int) {
					x.Mutable(fd).List().Append(protoreflect.ValueOfString(strings.Repeat("p", n)))
				}
			}
		case fd.Kind() == protoreflect.StringKind:
			return func(x protoreflect.Message, n int) { x.Set(fd, protoreflect.ValueOfString(strings.Repeat("p", n))) }
		}
	}
	for i := 0; i < fds.Len(); i++ {
		fd := fds.Get(i)
		if fd.Kind() == protoreflect.MessageKind && !fd.IsMap() && !fd.IsList() {
			sub, err := protoregistry.GlobalTypes.FindMessageByName(fd.Message().FullName())
			if err != nil || fd.Message().FullName() == m.Descriptor().FullName() {
				continue
			}
			if g := growable(sub.New()); g != nil {
				return func(x protoreflect.Message, n int) { g(x.Mutable(fd).Message(), n) }
			}
		}
	}
	return nil
}

type stats struct {
	res   *rep.Result
	seen  map[string]struct{}
	types map[string]int
}

func check(st *stats, prop string, m proto.Message, desc string) {
	st.res.Evaluations++
	vm, ok := m.(vtMessage)
	tname := string(m.ProtoReflect().Descriptor().Name())
	if !ok {
		st.res.Add(prop+"|no-vt-codec|"+tname, "message type has no specialised codec methods", desc)
		return
	}
	fail := func(kind, f string, a ...any) {
		st.res.Add(prop+"|"+kind+"|"+tname, fmt.Sprintf(f, a...)+"\n  message: "+tname+"{"+desc+"}", map[string]any{"type": tname, "fields": desc})
	}
	// the specialised encoder goes first: whatever an earlier encoding of this very object left behind
	// (size caches) is what it finds
	var b2 []byte
	var err error
	func() {
		defer func() {
			if p := recover(); p != nil {
				fail("vt-marshal-panic", "MarshalVT panicked: %v", p)
				b2 = nil
				err = fmt.Errorf("panic")
			}
		}()
		b2, err = vm.MarshalVT()
	}()
	if err != nil {
		if err.Error() != "panic" {
			fail("vt-marshal-error", "MarshalVT: %v", err)
		}
		return
	}
	if n := vm.SizeVT(); n != len(b2) {
		fail("size-mismatch", "SizeVT() = %d but MarshalVT wrote %d bytes", n, len(b2))
	}
	var b1 []byte
	b1, err = proto.MarshalOptions{Deterministic: true}.Marshal(m)
	if err != nil {
		fail("reflect-marshal-error", "proto.Marshal: %v", err)
		return
	}
	key := tname + ":" + string(b1)
	if _, dup := st.seen[key]; !dup {
		st.seen[key] = struct{}{}
		if len(b1) > 0 {
			st.res.Distinct++
		}
	}
	st.types[tname]++
	newMsg := func() vtMessage { return m.ProtoReflect().New().Interface().(vtMessage) }
	// reflect bytes -> vt decoder
	x := newMsg()
	if err := safeUnmarshalVT(x, b1); err != nil {
		fail("vt-decodes-reflect-bytes", "UnmarshalVT(proto.Marshal(m)) failed: %v (bytes %s)", err, hex.EncodeToString(cut(b1)))
	} else if !proto.Equal(m, x) {
		fail("vt-decodes-reflect-bytes", "UnmarshalVT(proto.Marshal(m)) != m: got %v", x)
	}
	// vt bytes -> reflect decoder
	y := newMsg()
	if err := proto.Unmarshal(b2, y); err != nil {
		fail("reflect-decodes-vt-bytes", "proto.Unmarshal(m.MarshalVT()) failed: %v (bytes %s)", err, hex.EncodeToString(cut(b2)))
	} else if !proto.Equal(m, y) {
		fail("reflect-decodes-vt-bytes", "proto.Unmarshal(m.MarshalVT()) != m: got %v", y)
	}
	// self round trips
	z := newMsg()
	if err := safeUnmarshalVT(z, b2); err != nil {
		fail("vt-roundtrip", "UnmarshalVT(MarshalVT(m)) failed: %v", err)
	} else if !proto.Equal(m, z) {
		fail("vt-roundtrip", "UnmarshalVT(MarshalVT(m)) != m: got %v", z)
	}
	w := newMsg()
	if err := proto.Unmarshal(b1, w); err != nil || !proto.Equal(m, w) {
		fail("reflect-roundtrip", "proto.Unmarshal(proto.Marshal(m)) != m (%v)", err)
	}
	// the specialised encoder's other entry points write into a buffer supplied by the caller: a
	// buffer that was used before (not zeroed) must give the same message
	if bm, ok := m.(interface {
		MarshalToVT([]byte) (int, error)
		MarshalToSizedBufferVT([]byte) (int, error)
	}); ok {
		size := vm.SizeVT()
		for _, sized := range []bool{false, true} {
			buf := bytes.Repeat([]byte{0xa5}, size)
			var n int
			var err error
			func() {
				defer func() {
					if p := recover(); p != nil {
						err = fmt.Errorf("panic: %v", p)
					}
				}()
				if sized {
					n, err = bm.MarshalToSizedBufferVT(buf)
				} else {
					n, err = bm.MarshalToVT(buf)
				}
			}()
			name := map[bool]string{false: "MarshalToVT", true: "MarshalToSizedBufferVT"}[sized]
			if err != nil || n != size {
				fail("vt-marshal-to-buffer", "%s into a buffer of SizeVT() bytes returned %d, %v", name, n, err)
				continue
			}
			u := newMsg()
			if err := proto.Unmarshal(buf, u); err != nil {
				fail("vt-marshal-to-buffer", "%s into a used (non-zero) buffer produced bytes the reflection decoder rejects: %v (bytes %s)", name, err, hex.EncodeToString(cut(buf)))
			} else if !proto.Equal(m, u) {
				fail("vt-marshal-to-buffer", "%s into a used (non-zero) buffer decodes to a different message: %v", name, u)
			}
		}
	}
	// map entries are encoded in Go's map iteration order: repeat the specialised round trip so that
	// every order of a two- or three-entry map is met with near certainty
	multi := false
	m.ProtoReflect().Range(func(fd protoreflect.FieldDescriptor, v protoreflect.Value) bool {
		if fd.IsMap() && v.Map().Len() >= 2 {
			multi = true
		}
		return !multi
	})
	if multi {
		for k := 0; k < 12; k++ {
			bb, err := vm.MarshalVT()
			if err != nil {
				break
			}
			zz := newMsg()
			if err := safeUnmarshalVT(zz, bb); err != nil || !proto.Equal(m, zz) {
				fail("vt-roundtrip", "UnmarshalVT(MarshalVT(m)) != m for one of the map iteration orders (err %v): got %v", err, zz)
				break
			}
			yy := newMsg()
			if err := proto.Unmarshal(bb, yy); err != nil || !proto.Equal(m, yy) {
				fail("reflect-decodes-vt-bytes", "proto.Unmarshal(m.MarshalVT()) != m for one of the map iteration orders (err %v): got %v", err, yy)
				break
			}
		}
	}
}

func cut(b []byte) []byte {
	if len(b) > 64 {
		return b[:64]
	}
	return b
}

func safeUnmarshalVT(m vtMessage, b []byte) (err error) {
	defer func() {
		if p := recover(); p != nil {
			err = fmt.Errorf("panic: %v", p)
		}
	}()
	return m.UnmarshalVT(b)
}

func main() {
	f := rep.ParseFlags()
	res := &rep.Result{Property: f.Prop, Engine: "codec", Exhaustive: true, Bounds: map[string]any{},
		Rule:        "for every message type of the protocol: the empty message, every value of every single field (integers {0,1,-1,min,max,..}, strings {'',a,multi-byte,long}, bytes, bools, enums incl. undefined, optional wrappers absent/zero/non-zero, lists, maps, nested messages to depth 3), every pair of fields over reduced domains, and the all-fields-set instance; oracle: both cross decodings, both self round trips and SizeVT; distinct = distinct encodings, non-trivial = non-empty encoding",
		Assumptions: []string{"invalid UTF-8 is outside proto3 and not generated", "equality is proto.Equal (which distinguishes unset from empty sub-messages)"}}
	st := &stats{res: res, seen: map[string]struct{}{}, types: map[string]int{}}
	_ = api.Event_LAST
	var mts []protoreflect.MessageType
	protoregistry.GlobalTypes.RangeMessages(func(mt protoreflect.MessageType) bool {
		if strings.HasPrefix(string(mt.Descriptor().FullName()), "nri.pkg.api.v1alpha1.") && !mt.Descriptor().IsMapEntry() {
			mts = append(mts, mt)
		}
		return true
	})
	sort.Slice(mts, func(i, j int) bool { return mts[i].Descriptor().FullName() < mts[j].Descriptor().FullName() })
	if f.Replay != "" {
		b, _ := os.ReadFile(f.Replay)
		var w struct {
			Signature string `json:"signature"`
		}
		json.Unmarshal(b, &w)
		fmt.Println("replay: re-running the deterministic enumeration and looking for", w.Signature)
		defer func() {
			for _, x := range res.Findings {
				if x.Signature == w.Signature {
					fmt.Printf("FINDING %s: %s\nVIOLATION property=%s replay=%s\n", x.Signature, x.Message, f.Prop, f.Replay)
					os.Exit(1)
				}
			}
			fmt.Println("no violation")
			os.Exit(0)
		}()
	}
	depth := 3
	if f.Thorough() {
		depth = 4
	}
	for ti, mt := range mts {
		if ti%f.NShards != f.Shard {
			continue
		}
		md := mt.Descriptor()
		check(st, f.Prop, mt.New().Interface(), "")
		fds := md.Fields()
		all := make([][]setter, fds.Len())
		red := make([][]setter, fds.Len())
		small := make([][]setter, fds.Len())
		redMax, smallMax := 6, 3
		if f.Thorough() {
			redMax, smallMax = 1000, 9
		}
		pick := func(l []setter, n int) []setter {
			if len(l) <= n {
				return l
			}
			// the first half from the front (typical values), the rest from the back (nested / all-set / extremes)
			out := append([]setter{}, l[:n/2]...)
			return append(out, l[len(l)-(n-n/2):]...)
		}
		for i := 0; i < fds.Len(); i++ {
			all[i] = fieldSetters(fds.Get(i), depth, false)
			red[i] = pick(all[i], redMax)
			small[i] = pick(all[i], smallMax)
		}
		for i := range all {
			for _, s := range all[i] {
				m := mt.New()
				s.set(m)
				check(st, f.Prop, m.Interface(), s.desc)
			}
		}
		for i := range red {
			for j := i + 1; j < len(red); j++ {
				for _, a := range red[i] {
					for _, b := range red[j] {
						m := mt.New()
						a.set(m)
						b.set(m)
						check(st, f.Prop, m.Interface(), a.desc+", "+b.desc)
					}
				}
				// the same object encoded, changed, encoded again (nothing remembered from the first
				// encoding may leak into the second): small domains, both orders of growing and shrinking
				for _, a := range small[i] {
					for _, b := range small[j] {
						m := mt.New()
						a.set(m)
						check(st, f.Prop, m.Interface(), a.desc)
						b.set(m)
						check(st, f.Prop, m.Interface(), a.desc+", encoded, then "+b.desc)
						m.Clear(fds.Get(i))
						check(st, f.Prop, m.Interface(), a.desc+", "+b.desc+", encoded, then "+string(fds.Get(i).Name())+" cleared")
					}
				}
			}
		}
		// triples of fields over small domains
		if n := len(small); n >= 3 {
			for i := 0; i < n; i++ {
				for j := i + 1; j < n; j++ {
					for k := j + 1; k < n; k++ {
						for _, a := range small[i] {
							for _, b := range small[j] {
								for _, c := range small[k] {
									m := mt.New()
									a.set(m)
									b.set(m)
									c.set(m)
									check(st, f.Prop, m.Interface(), a.desc+", "+b.desc+", "+c.desc)
								}
							}
						}
					}
				}
			}
		}
		check(st, f.Prop, allSet(mt, depth).Interface(), "all fields set")
		// nested messages changed in place after the enclosing message was encoded by both codecs
		for _, grow := range []bool{true, false} {
			am := allSet(mt, depth)
			check(st, f.Prop, am.Interface(), "all fields set")
			if mutateNested(am, grow, 0) {
				what := "shrunk"
				if grow {
					what = "grown"
				}
				check(st, f.Prop, am.Interface(), "all fields set, encoded, then every string inside nested messages "+what+" in place")
			}
		}
		// length sweep: for every message-typed field, grow a string inside the nested message so that
		// the nested encoding's size crosses the varint boundaries of its length prefix (127/128, 16383/16384)
		for i := 0; i < fds.Len(); i++ {
			fd := fds.Get(i)
			if fd.Kind() != protoreflect.MessageKind || fd.IsMap() || fd.IsList() {
				continue
			}
			sub, _ := protoregistry.GlobalTypes.FindMessageByName(fd.Message().FullName())
			grow := growable(sub.New())
			if grow == nil {
				continue
			}
			ranges := [][2]int{{0, 260}}
			if f.Thorough() || ti%4 == 0 {
				ranges = append(ranges, [2]int{16100, 16400})
			}
			for _, r := range ranges {
				for L := r[0]; L <= r[1]; L++ {
					m := mt.New()
					nested := sub.New()
					grow(nested, L)
					m.Set(fd, protoreflect.ValueOfMessage(nested))
					check(st, f.Prop, m.Interface(), fmt.Sprintf("%s=nested message padded with a %d-byte string", fd.Name(), L))
				}
			}
		}
		// the same sweep for EVERY string, string-list and string-map field of the message itself (each
		// field has its own size and encoding code)
		for i := 0; i < fds.Len(); i++ {
			fd := fds.Get(i)
			var set func(x protoreflect.Message, n int)
			switch {
			case fd.IsMap():
				if fd.MapValue().Kind() == protoreflect.StringKind && fd.MapKey().Kind() == protoreflect.StringKind {
					set = func(x protoreflect.Message, n int) {
						// the length is split between key and value
						x.Mutable(fd).Map().Set(protoreflect.ValueOfString(strings.Repeat("k", n/3)).MapKey(), protoreflect.ValueOfString(strings.Repeat("p", n-n/3)))
					}
				}
			case fd.IsList():
				if fd.Kind() == protoreflect.StringKind {
					set = func(x protoreflect.Message, n int) {
						x.Mutable(fd).List().Append(protoreflect.ValueOfString(strings.Repeat("p", n)))
					}
				}
			case fd.Kind() == protoreflect.StringKind:
				set = func(x protoreflect.Message, n int) { x.Set(fd, protoreflect.ValueOfString(strings.Repeat("p", n))) }
			}
			if set == nil {
				continue
			}
			ranges := [][2]int{{100, 140}, {250, 262}}
			if f.Thorough() {
				ranges = [][2]int{{0, 262}, {16360, 16400}}
			}
			for _, r := range ranges {
				for L := r[0]; L <= r[1]; L++ {
					m := mt.New()
					set(m, L)
					check(st, f.Prop, m.Interface(), fmt.Sprintf("%s sized %d bytes", fd.Name(), L))
				}
			}
		}
		if ti%8 == 0 {
			res.Sample(map[string]any{"type": string(md.Name()), "example": fmt.Sprint(allSet(mt, 1).Interface())})
		}
	}
	res.States = res.Evaluations
	res.Transitions = res.Evaluations * 4
	res.Bounds["message_types"] = len(mts)
	res.Bounds["nesting_depth"] = depth
	res.Bounds["instances_per_type"] = st.types
	if f.Replay == "" {
		res.Write(f)
	}
}

// mutateNested changes, in place, the string fields of every message nested in m (directly, in
// lists and in maps). Returns whether anything was changed.
func mutateNested(m protoreflect.Message, grow bool, depth int) bool {
	changed := false
	var muts []func()
	m.Range(func(fd protoreflect.FieldDescriptor, v protoreflect.Value) bool {
		switch {
		case fd.IsMap():
			if fd.MapValue().Kind() == protoreflect.MessageKind {
				v.Map().Range(func(_ protoreflect.MapKey, mv protoreflect.Value) bool {
					if mutateNested(mv.Message(), grow, depth+1) {
						changed = true
					}
					return true
				})
			}
		case fd.IsList():
			if fd.Kind() == protoreflect.MessageKind {
				for i := 0; i < v.List().Len(); i++ {
					if mutateNested(v.List().Get(i).Message(), grow, depth+1) {
						changed = true
					}
				}
			}
		case fd.Kind() == protoreflect.MessageKind:
			if mutateNested(v.Message(), grow, depth+1) {
				changed = true
			}
		case fd.Kind() == protoreflect.StringKind && depth > 0:
			fd := fd
			old := v.String()
			muts = append(muts, func() {
				if grow {
					m.Set(fd, protoreflect.ValueOfString(old+strings.Repeat("g", 150)))
				} else {
					m.Set(fd, protoreflect.ValueOfString(""))
				}
			})
		}
		return true
	})
	for _, f := range muts {
		f()
		changed = true
	}
	return changed
}
