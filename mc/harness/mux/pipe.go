package main

import (
	"errors"
	"fmt"
	"io"
	"net"
	"os"
	"time"

	"github.com/containerd/nri/pkg/zzverif/vsched"
)

// An in-memory duplex byte pipe whose reads and writes are scheduler points
// and whose faults (short read, cut after k bytes of a write) are explorer
// choices.

type half struct {
	buf      []byte
	eof      bool // writer side closed or pipe severed: readers get EOF after draining
	name     string
	written  int // total bytes ever accepted
	consumed int // total bytes ever read
}

type pipe struct {
	ab, ba     *half // a->b and b->a
	severed    bool
	faults     *faultCfg
	cutAt      string // description of the cut that happened
	shortReads int
	timedOut   string
}

type faultCfg struct {
	cut       bool // a trunk write may be cut after k bytes
	shortRead bool // a trunk read may return fewer bytes than available
	cutUsed   bool
	timeout   bool // one trunk read may fail with a deadline error (at a frame boundary or after one more byte); the trunk keeps working
	timeoutSt int  // 0 unused, 1 armed (the next read fails), 2 done
}

type end struct {
	p      *pipe
	rd, wr *half
	name   string
	closed bool
}

func newPipe(f *faultCfg) (*end, *end) {
	p := &pipe{ab: &half{name: "a->b"}, ba: &half{name: "b->a"}, faults: f}
	return &end{p: p, rd: p.ba, wr: p.ab, name: "A"}, &end{p: p, rd: p.ab, wr: p.ba, name: "B"}
}

var errSevered = errors.New("write: broken pipe (trunk severed)")

func (e *end) Read(b []byte) (int, error) {
	if len(b) == 0 {
		return 0, nil
	}
	vsched.Block("trunk.read."+e.name, e.rd, func() bool { return len(e.rd.buf) > 0 || e.rd.eof || e.closed })
	if e.closed {
		return 0, fmt.Errorf("read %s: %w", e.name, net.ErrClosed)
	}
	if len(e.rd.buf) == 0 {
		return 0, io.EOF
	}
	if f := e.p.faults; f != nil && f.timeout {
		if f.timeoutSt == 1 {
			f.timeoutSt = 2
			e.p.timedOut = fmt.Sprintf("read on %s failed with a deadline error at stream offset %d", e.name, e.rd.consumed)
			return 0, &net.OpError{Op: "read", Net: "mem", Err: os.ErrDeadlineExceeded}
		}
		if f.timeoutSt == 0 {
			switch vsched.Choose(3, "timeout") {
			case 1:
				f.timeoutSt = 2
				e.p.timedOut = fmt.Sprintf("read on %s failed with a deadline error at stream offset %d", e.name, e.rd.consumed)
				return 0, &net.OpError{Op: "read", Net: "mem", Err: os.ErrDeadlineExceeded}
			case 2:
				f.timeoutSt = 1
				copy(b, e.rd.buf[:1])
				e.rd.buf = e.rd.buf[1:]
				e.rd.consumed++
				return 1, nil
			}
		}
	}
	n := len(e.rd.buf)
	if n > len(b) {
		n = len(b)
	}
	if n > 1 && e.p.faults != nil && e.p.faults.shortRead {
		if vsched.Choose(2, "shortread") == 1 {
			n = 1
			e.p.shortReads++
		}
	}
	copy(b, e.rd.buf[:n])
	e.rd.buf = e.rd.buf[n:]
	e.rd.consumed += n
	return n, nil
}

func (e *end) Write(b []byte) (int, error) {
	vsched.Yield("trunk.write." + e.name)
	if e.closed {
		return 0, fmt.Errorf("write %s: %w", e.name, net.ErrClosed)
	}
	if e.p.severed || e.wr.eof {
		return 0, errSevered
	}
	if f := e.p.faults; f != nil && f.cut && !f.cutUsed {
		if c := vsched.Choose(len(b)+2, "cut"); c > 0 {
			k := c - 1
			f.cutUsed = true
			e.wr.buf = append(e.wr.buf, b[:k]...)
			e.wr.written += k
			e.p.severed = true
			e.p.ab.eof, e.p.ba.eof = true, true
			e.p.cutAt = fmt.Sprintf("%s after %d of %d bytes (stream offset %d)", e.wr.name, k, len(b), e.wr.written)
			return k, errSevered
		}
	}
	e.wr.buf = append(e.wr.buf, b...)
	e.wr.written += len(b)
	return len(b), nil
}

func (e *end) Close() error {
	vsched.Yield("trunk.close." + e.name)
	if e.closed {
		return fmt.Errorf("close %s: %w", e.name, net.ErrClosed)
	}
	e.closed = true
	e.wr.eof = true // the peer reads EOF after draining
	e.rd.eof = true
	return nil
}

type addr string

func (a addr) Network() string { return "mem" }
func (a addr) String() string  { return string(a) }

func (e *end) LocalAddr() net.Addr              { return addr(e.name) }
func (e *end) RemoteAddr() net.Addr             { return addr("peer-of-" + e.name) }
func (e *end) SetDeadline(time.Time) error      { return nil }
func (e *end) SetReadDeadline(time.Time) error  { return nil }
func (e *end) SetWriteDeadline(time.Time) error { return nil }
