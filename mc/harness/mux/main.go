// Harness "mux": fully controlled exhaustive exploration of the socket
// multiplexer (pkg/net/multiplex, pkg/net/conn.go). The packages are
// rebuilt with every lock, channel operation, select, goroutine start and
// map iteration routed through vsched; the trunk is an in-memory pipe
// owned by the harness. Decides C10 (no faults) and C11 (faults).
package main

import (
	"encoding/json"
	"errors"
	"fmt"
	"io"
	"net"
	"os"
	"strings"
	"time"

	"github.com/containerd/nri/pkg/net/multiplex"
	"github.com/containerd/nri/pkg/zzverif/vsched"

	"nriverif/lib/rep"
)

const maxPayload = 16 // ttrpcMessageHeaderLength(10) + shrunk ttrpcMessageLengthMax(6)

type wspec struct {
	End   string
	ID    uint32
	Sizes []int
}

type rspec struct {
	End       string
	ID        uint32
	MaxFrames int // stop reading after this many frames (0 = read until all expected frames / an error)
}

type cspec struct {
	What  string // "mux:A", "conn:A:1", "listener:A:3"
	Times int
}

type scen struct {
	Name     string
	Props    []string
	IDs      []uint32
	Qlen     int
	Overflow bool // an overflow of a receive queue may happen through the schedule alone (reader delayed)
	Writers  []wspec
	Readers  []rspec
	Closers  []cspec
	Cut      bool
	Short    bool
	Listener bool   // scenario about the connListener (Accept/Close)
	Timeout  bool   // one trunk read may fail with a deadline error while the trunk keeps working
	Script   string // "reopen" | "closed-id-flood": scripted histories with a connection closed (and opened again)
	Bound    [2]int
}

var scens = []scen{
	// ---- C10: complete, ordered, isolated ----
	{Name: "c10-two-ids-oversized", Props: []string{"C10"}, IDs: []uint32{1, 2}, Qlen: 8,
		Writers: []wspec{{"A", 1, []int{maxPayload + 1}}, {"A", 2, []int{1, 0}}},
		Readers: []rspec{{"B", 1, 0}, {"B", 2, 0}}, Bound: [2]int{2, 4}},
	{Name: "c10-same-id-two-writers", Props: []string{"C10"}, IDs: []uint32{1}, Qlen: 8,
		Writers: []wspec{{"A", 1, []int{2*maxPayload + 3}}, {"A", 1, []int{maxPayload - 1, maxPayload}}},
		Readers: []rspec{{"B", 1, 0}}, Bound: [2]int{2, 4}},
	{Name: "c10-both-directions", Props: []string{"C10"}, IDs: []uint32{1, 2}, Qlen: 8,
		Writers: []wspec{{"A", 1, []int{maxPayload + 1}}, {"B", 1, []int{3}}, {"B", 2, []int{maxPayload}}},
		Readers: []rspec{{"B", 1, 0}, {"A", 1, 0}, {"A", 2, 0}}, Bound: [2]int{2, 3}},
	{Name: "c10-short-reads", Props: []string{"C10"}, IDs: []uint32{1, 2}, Qlen: 8, Short: true,
		Writers: []wspec{{"A", 1, []int{maxPayload + 2}}, {"A", 2, []int{2}}},
		Readers: []rspec{{"B", 1, 0}, {"B", 2, 0}}, Bound: [2]int{2, 3}},
	{Name: "c10-three-ids-default-queue", Props: []string{"C10"}, IDs: []uint32{1, 2, 3}, Qlen: 0,
		Writers: []wspec{{"A", 1, []int{1}}, {"A", 2, []int{maxPayload + 1}}, {"A", 3, []int{0, 2}}},
		Readers: []rspec{{"B", 1, 0}, {"B", 2, 0}, {"B", 3, 0}}, Bound: [2]int{2, 3}},
	{Name: "c10-three-writers-same-id", Props: []string{"C10"}, IDs: []uint32{1}, Qlen: 8,
		Writers: []wspec{{"A", 1, []int{maxPayload + 1}}, {"A", 1, []int{1}}, {"A", 1, []int{0, maxPayload}}},
		Readers: []rspec{{"B", 1, 0}}, Bound: [2]int{2, 3}},
	{Name: "c10-crossing-oversized", Props: []string{"C10"}, IDs: []uint32{1, 2}, Qlen: 8,
		Writers: []wspec{{"A", 1, []int{2*maxPayload + 3}}, {"B", 1, []int{2*maxPayload + 1}}, {"A", 2, []int{1}}},
		Readers: []rspec{{"B", 1, 0}, {"A", 1, 0}, {"B", 2, 0}}, Bound: [2]int{2, 3}},
	{Name: "c10-ids-congruent-mod-16", Props: []string{"C10"}, IDs: []uint32{1, 17}, Qlen: 8,
		Writers: []wspec{{"A", 1, []int{2, maxPayload + 1}}, {"A", 17, []int{3}}},
		Readers: []rspec{{"B", 1, 0}, {"B", 17, 0}}, Bound: [2]int{2, 3}},
	{Name: "c10-ids-congruent-mod-256-and-65536", Props: []string{"C10"}, IDs: []uint32{2, 258, 65538}, Qlen: 8,
		Writers: []wspec{{"A", 2, []int{1}}, {"A", 258, []int{2}}, {"A", 65538, []int{3}}},
		Readers: []rspec{{"B", 2, 0}, {"B", 258, 0}, {"B", 65538, 0}}, Bound: [2]int{2, 3}},
	// ---- C11: fail stop ----
	{Name: "c11-cut-any-offset", Props: []string{"C11"}, IDs: []uint32{1, 2}, Qlen: 8, Cut: true,
		Writers: []wspec{{"A", 1, []int{maxPayload + 1}}, {"B", 2, []int{2}}},
		Readers: []rspec{{"B", 1, 0}, {"A", 2, 0}}, Bound: [2]int{1, 3}},
	{Name: "c11-close-during-traffic", Props: []string{"C11"}, IDs: []uint32{1, 2}, Qlen: 8,
		Writers: []wspec{{"A", 1, []int{maxPayload + 1}}, {"B", 2, []int{2}}},
		Readers: []rspec{{"B", 1, 0}, {"A", 2, 0}},
		Closers: []cspec{{"mux:A", 1}}, Bound: [2]int{2, 4}},
	{Name: "c11-concurrent-closers", Props: []string{"C11"}, IDs: []uint32{1}, Qlen: 8,
		Writers: []wspec{{"A", 1, []int{3}}},
		Readers: []rspec{{"B", 1, 0}, {"A", 1, 0}},
		Closers: []cspec{{"mux:A", 2}, {"mux:A", 1}, {"mux:B", 1}}, Bound: [2]int{2, 4}},
	{Name: "c11-conn-close", Props: []string{"C11"}, IDs: []uint32{1, 2}, Qlen: 8,
		Writers: []wspec{{"A", 1, []int{2}}, {"A", 2, []int{2}}},
		Readers: []rspec{{"B", 1, 0}, {"B", 2, 0}},
		Closers: []cspec{{"conn:B:1", 2}, {"conn:B:1", 1}}, Bound: [2]int{2, 4}},
	{Name: "c11-overflow", Props: []string{"C11"}, IDs: []uint32{1, 2}, Qlen: 1,
		Writers: []wspec{{"A", 1, []int{1, 2, 3}}, {"A", 2, []int{1}}},
		Readers: []rspec{{"B", 1, 1}, {"B", 2, 0}}, Bound: [2]int{2, 4}},
	// the reader is not limited: the overflow comes from the schedule (reader delayed), and the reader
	// goes on reading afterwards - what it receives must still be a prefix (no frame skipped)
	{Name: "c11-overflow-late-reader", Props: []string{"C11"}, IDs: []uint32{1}, Qlen: 1, Overflow: true,
		Writers: []wspec{{"A", 1, []int{1, 2, 3, 4}}},
		Readers: []rspec{{"B", 1, 0}}, Bound: [2]int{2, 3}},
	{Name: "c11-overflow-oversized", Props: []string{"C11"}, IDs: []uint32{1}, Qlen: 2,
		Writers: []wspec{{"A", 1, []int{2*maxPayload + 1}}},
		Readers: []rspec{{"B", 1, 1}}, Bound: [2]int{2, 3}},
	{Name: "c11-peer-close-during-oversized", Props: []string{"C11"}, IDs: []uint32{1}, Qlen: 8,
		Writers: []wspec{{"A", 1, []int{2*maxPayload + 3}}},
		Readers: []rspec{{"B", 1, 0}},
		Closers: []cspec{{"mux:B", 1}}, Bound: [2]int{2, 3}},
	{Name: "c11-both-ends-close", Props: []string{"C11"}, IDs: []uint32{1, 2}, Qlen: 8,
		Writers: []wspec{{"A", 1, []int{2}}, {"B", 2, []int{maxPayload + 1}}},
		Readers: []rspec{{"B", 1, 0}, {"A", 2, 0}},
		Closers: []cspec{{"mux:A", 1}, {"mux:B", 1}}, Bound: [2]int{2, 3}},
	{Name: "c11-cut-with-closer", Props: []string{"C11"}, IDs: []uint32{1}, Qlen: 8, Cut: true,
		Writers: []wspec{{"A", 1, []int{maxPayload + 1}}},
		Readers: []rspec{{"B", 1, 0}},
		Closers: []cspec{{"conn:A:1", 1}}, Bound: [2]int{1, 3}},
	{Name: "c11-read-deadline-error", Props: []string{"C11"}, IDs: []uint32{1, 2}, Qlen: 8, Timeout: true,
		Writers: []wspec{{"A", 1, []int{maxPayload + 1, 2}}, {"A", 2, []int{3}}},
		Readers: []rspec{{"B", 1, 0}, {"B", 2, 0}}, Bound: [2]int{2, 3}},
	{Name: "c10-close-and-reopen-id", Props: []string{"C10"}, IDs: []uint32{1, 2}, Qlen: 8, Script: "reopen", Bound: [2]int{2, 4}},
	{Name: "c10-traffic-for-closed-id", Props: []string{"C10"}, IDs: []uint32{1, 2}, Qlen: 2, Script: "closed-id-flood", Bound: [2]int{2, 4}},
	{Name: "c10-traffic-for-closed-id-short-reads", Props: []string{"C10"}, IDs: []uint32{1, 2}, Qlen: 2, Script: "closed-id-flood", Short: true, Bound: [2]int{2, 3}},
	{Name: "c11-close-before-unblock", Props: []string{"C11"}, IDs: []uint32{1}, Qlen: 8, Script: "close-blocked", Bound: [2]int{2, 4}},
	{Name: "c11-listener-closed-after-mux", Props: []string{"C11"}, IDs: []uint32{3}, Qlen: 8, Script: "listener-after-mux-close", Bound: [2]int{2, 4}},
	{Name: "c10-accepted-connection-queue", Props: []string{"C10"}, IDs: []uint32{3}, Qlen: 8, Script: "listener-queue", Bound: [2]int{2, 3}},
	{Name: "c11-stale-handle-closed-again", Props: []string{"C11", "C10"}, IDs: []uint32{1, 2}, Qlen: 8, Script: "reopen-stale-close", Bound: [2]int{2, 4}},
	{Name: "c11-listener", Props: []string{"C11"}, IDs: []uint32{3}, Qlen: 8, Listener: true,
		Closers: []cspec{{"listener:A:3", 2}}, Bound: [2]int{3, 4}},
}

func payload(w, s, size int) []byte {
	b := make([]byte, size)
	for j := range b {
		b[j] = byte((w*4+s)*37 + j) // position-dependent: no two chunks of a payload look alike
	}
	return b
}

func chunks(b []byte) [][]byte {
	if len(b) == 0 {
		return [][]byte{{}}
	}
	var out [][]byte
	for len(b) > 0 {
		n := len(b)
		if n > maxPayload {
			n = maxPayload
		}
		out = append(out, b[:n])
		b = b[n:]
	}
	return out
}

type readerObs struct {
	frames [][]byte
	err    string
	eof    bool
}

type writeObs struct {
	n   int
	err string
}

type world struct {
	sc        *scen
	pipe      *pipe
	readers   []*readerObs
	writers   [][]writeObs
	done      int
	total     int
	accepts   []string
	probes    []string
	closedOK  bool
	failure   bool
	panicked  string
	listenerV []string
}

func errStr(err error) string {
	if err == nil {
		return ""
	}
	return err.Error()
}

func (w *world) body(s *vsched.Sched) {
	sc := w.sc
	s.Spawn("main", func() {
		f := &faultCfg{cut: sc.Cut, shortRead: sc.Short, timeout: sc.Timeout}
		a, b := newPipe(f)
		w.pipe = a.p
		var opts []multiplex.Option
		if sc.Qlen > 0 {
			opts = append(opts, multiplex.WithReadQueueLength(sc.Qlen))
		}
		if sc.Script == "close-blocked" {
			w.closeBlockedScenario(b, opts)
			return
		}
		mux := map[string]multiplex.Mux{"A": multiplex.Multiplex(a, opts...), "B": multiplex.Multiplex(b, opts...)}
		if sc.Listener {
			w.listenerScenario(mux)
			return
		}
		if sc.Script == "listener-after-mux-close" || sc.Script == "listener-queue" {
			w.listenerScripts(mux)
			return
		}
		if sc.Script != "" {
			w.scriptScenario(mux)
			return
		}
		conns := map[string]net.Conn{}
		for _, id := range sc.IDs {
			for _, e := range []string{"A", "B"} {
				c, err := mux[e].Open(multiplex.ConnID(id))
				if err != nil {
					panic(err)
				}
				conns[fmt.Sprintf("%s:%d", e, id)] = c
			}
		}
		w.readers = make([]*readerObs, len(sc.Readers))
		w.writers = make([][]writeObs, len(sc.Writers))
		nWorkers := 0 // writers and closers
		nReaders := 0
		workersDone, readersDone := 0, 0
		for ri, r := range sc.Readers {
			ri, r := ri, r
			ro := &readerObs{}
			w.readers[ri] = ro
			c := conns[fmt.Sprintf("%s:%d", r.End, r.ID)]
			want := r.MaxFrames
			if want == 0 && !w.mayFail() {
				want = w.expectedFrames(r)
			}
			nReaders++
			vsched.Go(fmt.Sprintf("R%d", ri), func() {
				defer func() { readersDone++ }()
				buf := make([]byte, maxPayload+4)
				for want == 0 || len(ro.frames) < want {
					n, err := c.Read(buf)
					if err != nil {
						ro.err = err.Error()
						ro.eof = errors.Is(err, io.EOF)
						return
					}
					ro.frames = append(ro.frames, append([]byte(nil), buf[:n]...))
				}
			})
		}
		for wi, ws := range sc.Writers {
			wi, ws := wi, ws
			c := conns[fmt.Sprintf("%s:%d", ws.End, ws.ID)]
			nWorkers++
			vsched.Go(fmt.Sprintf("W%d", wi), func() {
				defer func() { workersDone++ }()
				for s, size := range ws.Sizes {
					p := payload(wi, s, size)
					n, err := c.Write(p)
					w.writers[wi] = append(w.writers[wi], writeObs{n, errStr(err)})
					if err != nil {
						return
					}
				}
			})
		}
		for ci, cs := range sc.Closers {
			ci, cs := ci, cs
			nWorkers++
			vsched.Go(fmt.Sprintf("C%d", ci), func() {
				defer func() { workersDone++ }()
				for k := 0; k < cs.Times; k++ {
					parts := strings.Split(cs.What, ":")
					switch parts[0] {
					case "mux":
						mux[parts[1]].Close()
					case "conn":
						conns[parts[1]+":"+parts[2]].Close()
					}
				}
			})
		}
		vsched.Block("join-workers", nil, func() bool { return workersDone == nWorkers })
		if w.mayFail() {
			// if no failure happened in this execution, an orderly close is the failure event
			if !w.pipe.severed && len(sc.Closers) == 0 && !w.overflowExpected() {
				mux["A"].Close()
			}
			if w.overflowExpected() || w.hasConnCloser() {
				// the overflow / connection close may not have hit every connection's reader: end the session
				vsched.Block("join-some", nil, func() bool { return true })
				mux["A"].Close()
			}
		}
		vsched.Block("join-readers", nil, func() bool { return readersDone == nReaders })
		if !w.mayFail() {
			// C10: everything delivered; now close in an orderly way
			mux["A"].Close()
		}
		// after the failure / orderly close every further Read and Write must return an error without blocking
		for _, id := range sc.IDs {
			for _, e := range []string{"A", "B"} {
				c := conns[fmt.Sprintf("%s:%d", e, id)]
				buf := make([]byte, maxPayload+4)
				var rerr error
				for k := 0; k < 300; k++ {
					if _, rerr = c.Read(buf); rerr != nil {
						break
					}
				}
				_, werr := c.Write([]byte{0xee})
				if rerr == nil {
					w.probes = append(w.probes, fmt.Sprintf("Read on %s:%d keeps returning data after the failure", e, id))
				}
				if werr == nil {
					// a write may succeed on the side that did not observe the failure yet only if the trunk is intact
					w.probes = append(w.probes, fmt.Sprintf("Write on %s:%d succeeded after the mux failed/closed", e, id))
				}
			}
		}
		mux["A"].Close()
		mux["B"].Close()
		mux["B"].Close()
		w.closedOK = true
	})
}

func (w *world) listenerScenario(mux map[string]multiplex.Mux) {
	l, err := mux["A"].Listen(multiplex.ConnID(w.sc.IDs[0]))
	if err != nil {
		panic(err)
	}
	done := 0
	vsched.Go("Acc", func() {
		defer func() { done++ }()
		for k := 0; k < 3; k++ {
			c, err := l.Accept()
			if err != nil {
				w.accepts = append(w.accepts, "err:"+err.Error())
				return
			}
			w.accepts = append(w.accepts, fmt.Sprintf("conn:%v", c != nil))
		}
	})
	for ci, cs := range w.sc.Closers {
		cs := cs
		vsched.Go(fmt.Sprintf("C%d", ci), func() {
			defer func() { done++ }()
			for k := 0; k < cs.Times; k++ {
				l.Close()
			}
		})
	}
	vsched.Go("C-second", func() {
		defer func() { done++ }()
		l.Close()
	})
	vsched.Block("join", nil, func() bool { return done == 2+len(w.sc.Closers) })
	if _, err := l.Accept(); err == nil {
		w.listenerV = append(w.listenerV, "Accept after Close returned a connection")
	} else if !errors.Is(err, io.EOF) {
		w.listenerV = append(w.listenerV, "Accept after Close returned "+err.Error()+" instead of EOF")
	}
	mux["A"].Close()
	mux["B"].Close()
	w.closedOK = true
}

// scriptScenario: histories in which a logical connection is closed locally (and its id opened
// again) between two bursts of traffic for the same id.
//
//	reopen:          A writes f1 on id 1, B reads it; B closes its conn 1 and opens id 1 again; then A
//	                 writes f2 (two frames) on id 1 concurrently with B reading from the new conn: the
//	                 new conn must receive exactly f2's frames.
//	closed-id-flood: A writes f1 on id 1, B reads it; B closes conn 1; then A writes more frames for
//	                 id 1 than a read queue holds and one frame for id 2: frames for the closed id are
//	                 dropped, the reader of id 2 still receives its frame and nothing fails.
func (w *world) scriptScenario(mux map[string]multiplex.Mux) {
	sc := w.sc
	open := func(e string, id uint32) net.Conn {
		c, err := mux[e].Open(multiplex.ConnID(id))
		if err != nil {
			panic(err)
		}
		return c
	}
	a1, b1, a2, b2 := open("A", 1), open("B", 1), open("A", 2), open("B", 2)
	note := func(f string, a ...any) { w.listenerV = append(w.listenerV, fmt.Sprintf(f, a...)) }
	buf := make([]byte, maxPayload+4)
	f1 := payload(0, 0, 3)
	if n, err := a1.Write(f1); err != nil || n != len(f1) {
		note("write of the first payload on id 1 did not complete: %d, %v", n, err)
		return
	}
	if n, err := b1.Read(buf); err != nil || string(buf[:n]) != string(f1) {
		note("reader B:1 received %x (err %v), expected %x", buf[:n], err, f1)
		return
	}
	b1.Close()
	done := 0
	var reopened net.Conn
	switch sc.Script {
	case "reopen", "reopen-stale-close":
		nb1 := open("B", 1)
		if nb1 == b1 {
			note("opening id 1 again after Close returned the closed connection")
			return
		}
		reopened = nb1
		if sc.Script == "reopen-stale-close" {
			// closing a connection twice is harmless: the old handle's second Close must not touch the
			// connection that now owns the id
			b1.Close()
		}
		f2 := payload(1, 0, maxPayload+2)
		var got [][]byte
		var rerr error
		vsched.Go("W", func() {
			defer func() { done++ }()
			if n, err := a1.Write(f2); err != nil || n != len(f2) {
				note("write on id 1 after the peer reopened it did not complete: %d, %v", n, err)
			}
		})
		vsched.Go("R", func() {
			defer func() { done++ }()
			rb := make([]byte, maxPayload+4)
			for len(got) < 2 {
				n, err := nb1.Read(rb)
				if err != nil {
					rerr = err
					return
				}
				got = append(got, append([]byte(nil), rb[:n]...))
			}
		})
		vsched.Block("join", nil, func() bool { return done == 2 })
		want := chunks(f2)
		if rerr != nil || len(got) != len(want) || string(got[0]) != string(want[0]) || string(got[1]) != string(want[1]) {
			note("the reopened connection B:1 received %x (err %v), expected the frames %x written after it was opened", got, rerr, want)
		}
		w.accepts = append(w.accepts, fmt.Sprintf("reopened=%d", len(got)))
	case "closed-id-flood":
		var got []byte
		var rerr error
		vsched.Go("W", func() {
			defer func() { done++ }()
			for k := 0; k < sc.Qlen+2; k++ {
				if _, err := a1.Write(payload(2, k, 1+k)); err != nil {
					note("write #%d on id 1 (closed at the peer) failed: %v", k, err)
					return
				}
			}
			// two frames for the other id, no longer than the dropped ones, the first possibly still
			// queued when the second arrives
			for k := 0; k < 2; k++ {
				if _, err := a2.Write(payload(3, k, 2)); err != nil {
					note("write on id 2 failed: %v", err)
				}
			}
		})
		want := append(append([]byte(nil), payload(3, 0, 2)...), payload(3, 1, 2)...)
		vsched.Go("R", func() {
			defer func() { done++ }()
			rb := make([]byte, maxPayload+4)
			for len(got) < len(want) {
				n, err := b2.Read(rb)
				if err != nil {
					rerr = err
					return
				}
				got = append(got, rb[:n]...)
			}
		})
		vsched.Block("join", nil, func() bool { return done == 2 })
		if rerr != nil || string(got) != string(want) {
			note("reader B:2 received %x (err %v), expected %x although nothing failed: traffic for an id that was closed locally must be dropped without affecting other connections", got, rerr, want)
		}
		w.accepts = append(w.accepts, fmt.Sprintf("other-id=%d", len(got)))
	}
	mux["A"].Close()
	mux["B"].Close()
	if sc.Script == "reopen-stale-close" {
		// after the mux is closed a read on the connection that owns the id returns an error at once
		if reopened != nil {
			if _, err := reopened.Read(buf); err == nil {
				note("Read on the reopened connection returned data after the mux was closed")
			}
		}
	}
	w.closedOK = true
}

// closeBlockedScenario: a mux created with its reader blocked (as the runtime creates every plugin's
// mux) is closed before it was ever unblocked - once, twice and by two threads at once; Close returns,
// reads and writes on its connections return errors, a later Unblock is harmless.
func (w *world) closeBlockedScenario(trunk net.Conn, opts []multiplex.Option) {
	note := func(f string, a ...any) { w.listenerV = append(w.listenerV, fmt.Sprintf(f, a...)) }
	m := multiplex.Multiplex(trunk, append(append([]multiplex.Option{}, opts...), multiplex.WithBlockedRead())...)
	c, err := m.Open(multiplex.ConnID(1))
	if err != nil {
		panic(err)
	}
	done := 0
	for k := 0; k < 2; k++ {
		vsched.Go(fmt.Sprintf("C%d", k), func() {
			defer func() { done++ }()
			m.Close()
			m.Close()
		})
	}
	var rerr error
	vsched.Go("R", func() {
		defer func() { done++ }()
		_, rerr = c.Read(make([]byte, maxPayload+4))
	})
	vsched.Block("join", nil, func() bool { return done == 3 })
	if rerr == nil {
		note("Read on a connection of a mux closed before it was unblocked returned data")
	}
	if _, err := c.Write([]byte{1}); err == nil {
		note("Write on a connection of a mux closed before it was unblocked succeeded")
	}
	m.Unblock()
	m.Close()
	w.accepts = append(w.accepts, "closed-before-unblock")
	w.closedOK = true
}

// listenerScripts:
//
//	listener-after-mux-close: Listen, first Accept, a second Accept blocks; the mux is closed, then the
//	                          listener: the blocked Accept returns, a later Accept returns at once.
//	listener-queue:           the connection obtained through Listen/Accept has the configured queue
//	                          length (8, longer than the default): six frames written before the first
//	                          read are all delivered.
func (w *world) listenerScripts(mux map[string]multiplex.Mux) {
	note := func(f string, a ...any) { w.listenerV = append(w.listenerV, fmt.Sprintf(f, a...)) }
	id := multiplex.ConnID(w.sc.IDs[0])
	l, err := mux["B"].Listen(id)
	if err != nil {
		panic(err)
	}
	c, err := l.Accept()
	if err != nil || c == nil {
		note("first Accept failed: %v", err)
		return
	}
	done := 0
	switch w.sc.Script {
	case "listener-after-mux-close":
		var aerr error
		var ac net.Conn
		vsched.Go("Acc", func() {
			defer func() { done++ }()
			ac, aerr = l.Accept()
		})
		vsched.Go("Cl", func() {
			defer func() { done++ }()
			mux["B"].Close()
			l.Close()
		})
		vsched.Block("join", nil, func() bool { return done == 2 })
		if aerr == nil && ac != nil {
			note("the listener handed its connection out a second time")
		}
		if _, err := l.Accept(); err == nil {
			note("Accept after Close returned a connection")
		}
		w.accepts = append(w.accepts, "accept-returned")
	case "listener-queue":
		a, err := mux["A"].Open(id)
		if err != nil {
			panic(err)
		}
		const n = 6 // more than the (shrunk) default queue length 4, fewer than the configured 8
		var got [][]byte
		var rerr error
		vsched.Go("W", func() {
			defer func() { done++ }()
			for k := 0; k < n; k++ {
				if _, err := a.Write(payload(5, k, 2)); err != nil {
					note("write #%d failed: %v", k, err)
					return
				}
			}
		})
		vsched.Block("written", nil, func() bool { return done == 1 })
		// give the reader of B the chance to queue everything before the first Read
		vsched.Go("R", func() {
			defer func() { done++ }()
			rb := make([]byte, maxPayload+4)
			for len(got) < n {
				k, err := c.Read(rb)
				if err != nil {
					rerr = err
					return
				}
				got = append(got, append([]byte(nil), rb[:k]...))
			}
		})
		vsched.Block("join", nil, func() bool { return done == 2 })
		okAll := rerr == nil && len(got) == n
		for k := 0; okAll && k < n; k++ {
			okAll = string(got[k]) == string(payload(5, k, 2))
		}
		if !okAll {
			note("the accepted connection received %d of %d frames (err %v) although the receiver stayed within the configured queue length of %d: %x", len(got), n, rerr, w.sc.Qlen, got)
		}
		w.accepts = append(w.accepts, fmt.Sprintf("accepted-conn=%d", len(got)))
	}
	mux["A"].Close()
	mux["B"].Close()
	w.closedOK = true
}

func (w *world) mayFail() bool {
	return w.sc.Cut || w.sc.Timeout || len(w.sc.Closers) > 0 || w.overflowExpected()
}

func (w *world) hasConnCloser() bool {
	for _, c := range w.sc.Closers {
		if strings.HasPrefix(c.What, "conn:") {
			return true
		}
	}
	return false
}

func (w *world) overflowExpected() bool {
	if w.sc.Overflow {
		return true
	}
	for _, r := range w.sc.Readers {
		if r.MaxFrames > 0 {
			return true
		}
	}
	return false
}

// streams returns, for a reader, the chunk lists of the writers feeding it.
func (w *world) streams(r rspec) [][][]byte {
	var out [][][]byte
	for wi, ws := range w.sc.Writers {
		if ws.End != r.End && ws.ID == r.ID {
			var st [][]byte
			for s, size := range ws.Sizes {
				st = append(st, chunks(payload(wi, s, size))...)
			}
			out = append(out, st)
		}
	}
	return out
}

// payloadBounds marks, per writer stream, the chunk indices at which a payload starts.
func (w *world) payloadStarts(r rspec) []map[int]bool {
	var out []map[int]bool
	for _, ws := range w.sc.Writers {
		if ws.End != r.End && ws.ID == r.ID {
			m := map[int]bool{}
			i := 0
			for _, size := range ws.Sizes {
				m[i] = true
				n := (size + maxPayload - 1) / maxPayload
				if n == 0 {
					n = 1
				}
				i += n
			}
			m[i] = true
			out = append(out, m)
		}
	}
	return out
}

func (w *world) expectedFrames(r rspec) int {
	n := 0
	for _, st := range w.streams(r) {
		n += len(st)
	}
	return n
}

// isPrefixOfValidMerge: frames must be a prefix of a merge of the writers'
// chunk streams that keeps every writer's order and every payload's chunks contiguous.
func isPrefixOfValidMerge(frames [][]byte, streams [][][]byte, starts []map[int]bool) bool {
	idx := make([]int, len(streams))
	var rec func(k int, inside int) bool
	rec = func(k int, inside int) bool {
		if k == len(frames) {
			return true
		}
		for wi := range streams {
			if inside >= 0 && inside != wi {
				continue
			}
			if idx[wi] < len(streams[wi]) && string(streams[wi][idx[wi]]) == string(frames[k]) {
				idx[wi]++
				ni := wi
				if starts[wi][idx[wi]] {
					ni = -1 // payload complete
				}
				if rec(k+1, ni) {
					return true
				}
				idx[wi]--
			}
		}
		return false
	}
	return rec(0, -1)
}

func (w *world) verdict(ex *vsched.Exec) (viol []string, outcome string) {
	sc := w.sc
	if ex.Status == "panic" {
		viol = append(viol, "panic: "+ex.Detail)
	}
	if ex.Status == "deadlock" || ex.Status == "livelock" {
		viol = append(viol, fmt.Sprintf("%s: threads still blocked: %s", ex.Status, strings.Join(ex.Blocked, ", ")))
	}
	if sc.Script != "" {
		viol = append(viol, w.listenerV...)
		return viol, strings.Join(w.accepts, ",")
	}
	if sc.Listener {
		viol = append(viol, w.listenerV...)
		conns := 0
		for _, a := range w.accepts {
			if strings.HasPrefix(a, "conn:") {
				conns++
			} else if a != "err:EOF" {
				viol = append(viol, "Accept returned "+a)
			}
		}
		if conns > 1 {
			viol = append(viol, fmt.Sprintf("the listener handed the connection out %d times", conns))
		}
		return viol, strings.Join(w.accepts, ",")
	}
	var ob strings.Builder
	for ri, r := range sc.Readers {
		if ri >= len(w.readers) || w.readers[ri] == nil {
			continue
		}
		ro := w.readers[ri]
		st := w.streams(r)
		if !isPrefixOfValidMerge(ro.frames, st, w.payloadStarts(r)) {
			viol = append(viol, fmt.Sprintf("reader %s:%d received %x which is not a prefix of an order-preserving merge of the whole payloads written to that id (gap, duplicate, damaged or foreign frame)", r.End, r.ID, ro.frames))
		}
		if !w.mayFail() && ex.Status == "ok" {
			if len(ro.frames) != w.expectedFrames(r) || ro.err != "" {
				viol = append(viol, fmt.Sprintf("reader %s:%d got %d of %d frames (err %q) although nothing failed", r.End, r.ID, len(ro.frames), w.expectedFrames(r), ro.err))
			}
		}
		if w.mayFail() && ex.Status == "ok" && r.MaxFrames == 0 && ro.err == "" {
			viol = append(viol, fmt.Sprintf("reader %s:%d ended without an error", r.End, r.ID))
		}
		if ro.err != "" && !w.pipe.severed && w.pipe.timedOut == "" && !w.overflowExpected() && !ro.eof {
			viol = append(viol, fmt.Sprintf("reader %s:%d got %q after an orderly close, expected end-of-file", r.End, r.ID, ro.err))
		}
		fmt.Fprintf(&ob, "%s:%d=%d/%v ", r.End, r.ID, len(ro.frames), ro.err != "")
	}
	if !w.mayFail() {
		for wi, ws := range sc.Writers {
			for k := range ws.Sizes {
				if k >= len(w.writers[wi]) || w.writers[wi][k].err != "" || w.writers[wi][k].n != ws.Sizes[k] {
					viol = append(viol, fmt.Sprintf("writer %d write #%d did not complete: %+v", wi, k, w.writers[wi]))
					break
				}
			}
		}
	}
	if ex.Status == "ok" {
		viol = append(viol, w.probes...)
	}
	if w.pipe != nil && w.pipe.severed {
		ob.WriteString("cut ")
	}
	if w.pipe != nil && w.pipe.timedOut != "" {
		ob.WriteString("deadline-error ")
	}
	return viol, ob.String()
}

func (sc *scen) scenario() *vsched.Scenario {
	return &vsched.Scenario{
		Name: sc.Name,
		Cfg:  vsched.Config{Mode: vsched.Deviation, MaxSteps: 20000},
		New: func() (vsched.Body, func(ex *vsched.Exec) ([]string, string)) {
			w := &world{sc: sc}
			return w.body, w.verdict
		},
	}
}

func serves(sc *scen, prop string) bool {
	for _, p := range sc.Props {
		if p == prop {
			return true
		}
	}
	return false
}

func sigOf(prop, name string, msgs []string) string {
	kind := "invariant"
	for _, m := range msgs {
		switch {
		case strings.HasPrefix(m, "panic"):
			kind = "panic"
		case strings.HasPrefix(m, "deadlock") || strings.HasPrefix(m, "livelock"):
			kind = "hang"
		case strings.Contains(m, "not a prefix"):
			kind = "stream-corrupt"
		case strings.Contains(m, "although nothing failed") || strings.Contains(m, "did not complete"):
			kind = "incomplete"
		case strings.Contains(m, "after the failure") || strings.Contains(m, "after the mux failed"):
			kind = "no-error-after-failure"
		case strings.Contains(m, "expected end-of-file"):
			kind = "not-eof"
		case strings.Contains(m, "listener") || strings.Contains(m, "Accept"):
			kind = "listener"
		}
		if kind == "panic" || kind == "hang" {
			break
		}
	}
	return fmt.Sprintf("%s|mux|%s|%s", prop, name, kind)
}

func main() {
	f := rep.ParseFlags()
	res := &rep.Result{Property: f.Prop, Engine: "mux", Exhaustive: true, Bounds: map[string]any{}}
	if f.Replay != "" {
		os.Exit(replay(f))
	}
	res.Rule = "every execution of the scenario (threads: main, one mux reader per end, writers, readers, closers) whose number of deviations from the default schedule/choices is within the bound; choices = next thread, ready select case, map order, short read, trunk cut after k bytes; distinct = distinct observation outcomes (frames received / errors per reader)"
	res.Assumptions = []string{
		"frame limit shrunk to 16 bytes by build-time constant rewrite (the real 4 MiB constant is exercised by a free-running case of the transport harness)",
		"trunk = in-memory pipe with unbounded buffering; reads with a buffer smaller than a frame and connections opened after close are outside the alphabet",
		"memory-model effects below Go's sync primitives are not modelled",
	}
	tierIdx := 0
	if f.Thorough() {
		tierIdx = 1
	}
	deadline := time.Now().Add(8 * time.Minute)
	if f.Thorough() {
		deadline = time.Now().Add(210 * time.Minute)
	}
	bounds := map[string]int{}
	for i := range scens {
		sc := &scens[i]
		if !serves(sc, f.Prop) || (f.Engine != "" && f.Engine != "mux" && f.Engine != sc.Name) {
			continue
		}
		if only := os.Getenv("VERIF_MUX_SCENARIO"); only != "" && only != sc.Name {
			continue // experiments: one scenario, optionally with another bound
		}
		if bs := os.Getenv("VERIF_MUX_BOUND"); bs != "" {
			fmt.Sscan(bs, &sc.Bound[tierIdx])
		}
		ex := &vsched.Explorer{Sc: sc.scenario(), Bound: sc.Bound[tierIdx], Shard: f.Shard, NShards: f.NShards, Deadline: deadline}
		if err := ex.Run(); err != nil {
			rep.Fatal(f, "%v", err)
		}
		bounds[sc.Name] = sc.Bound[tierIdx]
		res.Evaluations += int64(ex.Execs)
		res.States += int64(ex.PointsSeen)
		res.Transitions += int64(ex.Steps)
		res.Distinct += int64(len(ex.Outcomes))
		if ex.Capped {
			res.Exhaustive = false
			res.Notes = append(res.Notes, fmt.Sprintf("scenario %s: time cap reached after %d executions in this shard (bound %d not completed)", sc.Name, ex.Execs, sc.Bound[tierIdx]))
		}
		for o, n := range ex.Outcomes {
			res.Outcomes = addOutcome(res.Outcomes, sc.Name+"|"+o, n)
		}
		for _, s := range ex.Samples {
			res.Sample(map[string]any{"scenario": sc.Name, "choices": s})
		}
		for _, v := range ex.Violations {
			res.Add(sigOf(f.Prop, sc.Name, v.Messages), strings.Join(v.Messages, "\n  ")+"\n  trace tail: "+strings.Join(v.Trace, " "),
				map[string]any{"scenario": sc.Name, "choices": v.Choices})
		}
	}
	res.Bounds["deviation_bound_per_scenario"] = bounds
	res.Bounds["max_frame_payload"] = maxPayload
	res.Write(f)
}

func addOutcome(m map[string]int, k string, n int) map[string]int {
	if m == nil {
		m = map[string]int{}
	}
	if len(m) < 200 {
		m[k] += n
	}
	return m
}

func replay(f *rep.Flags) int {
	b, err := os.ReadFile(f.Replay)
	if err != nil {
		rep.Fatal(f, "%v", err)
	}
	var w struct {
		Property string `json:"property"`
		Replay   struct {
			Scenario string `json:"scenario"`
			Choices  []int  `json:"choices"`
		} `json:"replay"`
	}
	if err := json.Unmarshal(b, &w); err != nil {
		rep.Fatal(f, "%v", err)
	}
	for i := range scens {
		if scens[i].Name == w.Replay.Scenario {
			ex, v, o := scens[i].scenario().Replay(w.Replay.Choices)
			fmt.Printf("scenario %s status=%s steps=%d outcome=%s\n", w.Replay.Scenario, ex.Status, ex.Steps, o)
			for _, m := range v {
				fmt.Println("  ", m)
			}
			if len(v) > 0 {
				fmt.Printf("VIOLATION property=%s replay=%s\n", w.Property, f.Replay)
				return 1
			}
			fmt.Println("no violation")
			return 0
		}
	}
	rep.Fatal(f, "unknown scenario")
	return 2
}
