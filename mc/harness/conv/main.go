// Harness "conv": bounded-exhaustive exploration of the NRI<->OCI
// conversions, the resource copy, the optional-value constructors and the
// event mask printer/parser. Decides C14.
package main

import (
	"encoding/json"
	"fmt"
	"math"
	"os"
	"reflect"
	"strings"

	"github.com/containerd/nri/pkg/api"
	rspec "github.com/opencontainers/runtime-spec/specs-go"
	"google.golang.org/protobuf/proto"

	"nriverif/lib/rep"
)

var res *rep.Result
var prop string

func fail(sig, f string, a ...any) {
	res.Add(prop+"|"+sig, fmt.Sprintf(f, a...), map[string]any{"signature": sig})
}

func eval() { res.Evaluations++; res.States++; res.Transitions++ }

// ---- resources ----------------------------------------------------------

// optional scalar states: 0 unset, 1 zero, 2 one, 3 extreme
const nStates = 4

type field struct {
	name string
	set  func(r *api.LinuxResources, st int)
}

func i64(st int) *api.OptionalInt64 {
	switch st {
	case 1:
		return api.Int64(int64(0))
	case 2:
		return api.Int64(int64(1))
	case 3:
		return api.Int64(int64(math.MinInt64))
	}
	return nil
}
func u64(st int) *api.OptionalUInt64 {
	switch st {
	case 1:
		return api.UInt64(uint64(0))
	case 2:
		return api.UInt64(uint64(1))
	case 3:
		return api.UInt64(uint64(math.MaxUint64))
	}
	return nil
}
func ob(st int) *api.OptionalBool {
	switch st {
	case 1:
		return api.Bool(false)
	case 2, 3:
		return api.Bool(true)
	}
	return nil
}
func str(st int) string { return []string{"", "", "0-3", "0,2,4-7"}[st] }

var fields = []field{
	{"mem.limit", func(r *api.LinuxResources, st int) { r.Memory.Limit = i64(st) }},
	{"mem.reservation", func(r *api.LinuxResources, st int) { r.Memory.Reservation = i64(st) }},
	{"mem.swap", func(r *api.LinuxResources, st int) { r.Memory.Swap = i64(st) }},
	{"mem.kernel", func(r *api.LinuxResources, st int) { r.Memory.Kernel = i64(st) }},
	{"mem.kerneltcp", func(r *api.LinuxResources, st int) { r.Memory.KernelTcp = i64(st) }},
	{"mem.swappiness", func(r *api.LinuxResources, st int) { r.Memory.Swappiness = u64(st) }},
	{"mem.disableoom", func(r *api.LinuxResources, st int) { r.Memory.DisableOomKiller = ob(st) }},
	{"mem.usehierarchy", func(r *api.LinuxResources, st int) { r.Memory.UseHierarchy = ob(st) }},
	{"cpu.shares", func(r *api.LinuxResources, st int) { r.Cpu.Shares = u64(st) }},
	{"cpu.quota", func(r *api.LinuxResources, st int) { r.Cpu.Quota = i64(st) }},
	{"cpu.period", func(r *api.LinuxResources, st int) { r.Cpu.Period = u64(st) }},
	{"cpu.rtruntime", func(r *api.LinuxResources, st int) { r.Cpu.RealtimeRuntime = i64(st) }},
	{"cpu.rtperiod", func(r *api.LinuxResources, st int) { r.Cpu.RealtimePeriod = u64(st) }},
	{"cpu.cpus", func(r *api.LinuxResources, st int) { r.Cpu.Cpus = str(st) }},
	{"cpu.mems", func(r *api.LinuxResources, st int) { r.Cpu.Mems = str(st) }},
	{"pids", func(r *api.LinuxResources, st int) {
		switch st {
		case 0:
			r.Pids = nil
		case 1:
			r.Pids = &api.LinuxPids{Limit: 0}
		case 2:
			r.Pids = &api.LinuxPids{Limit: 1}
		case 3:
			r.Pids = &api.LinuxPids{Limit: math.MinInt64}
		}
	}},
	{"hugepages", func(r *api.LinuxResources, st int) {
		r.HugepageLimits = nil
		switch st {
		case 1:
			r.HugepageLimits = []*api.HugepageLimit{{PageSize: "2MB", Limit: 0}}
		case 2:
			r.HugepageLimits = []*api.HugepageLimit{{PageSize: "2MB", Limit: 1}, {PageSize: "1GB", Limit: 7}}
		case 3:
			r.HugepageLimits = []*api.HugepageLimit{{PageSize: "", Limit: math.MaxUint64}}
		}
	}},
	{"unified", func(r *api.LinuxResources, st int) {
		r.Unified = nil
		switch st {
		case 1:
			r.Unified = map[string]string{"": ""}
		case 2:
			r.Unified = map[string]string{"memory.high": "1"}
		case 3:
			r.Unified = map[string]string{"a": "1", "b": "max"}
		}
	}},
	{"blockio", func(r *api.LinuxResources, st int) {
		r.BlockioClass = nil
		if st > 0 {
			r.BlockioClass = api.String([]string{"", "", "gold", "x"}[st])
		}
	}},
	{"rdt", func(r *api.LinuxResources, st int) {
		r.RdtClass = nil
		if st > 0 {
			r.RdtClass = api.String([]string{"", "", "gold", "x"}[st])
		}
	}},
	{"devices", func(r *api.LinuxResources, st int) {
		r.Devices = nil
		switch st {
		case 1:
			r.Devices = []*api.LinuxDeviceCgroup{{Allow: false, Type: "", Access: ""}}
		case 2:
			r.Devices = []*api.LinuxDeviceCgroup{{Allow: true, Type: "c", Major: api.Int64(int64(1)), Minor: api.Int64(int64(0)), Access: "rwm"}}
		case 3:
			r.Devices = []*api.LinuxDeviceCgroup{{Allow: true, Type: "b", Major: api.Int64(int64(-1)), Access: "r"}, {Allow: false, Type: "a"}}
		}
	}},
}

func build(base int, dev map[int]int) *api.LinuxResources {
	r := &api.LinuxResources{Memory: &api.LinuxMemory{}, Cpu: &api.LinuxCPU{}}
	for i, f := range fields {
		st := base
		if d, ok := dev[i]; ok {
			st = d
		}
		f.set(r, st)
	}
	return r
}

// semEq compares two NRI resource sets on the fields both representations
// carry: optional presence and value, nil and empty collections equal, an
// absent and an empty sub-message equal.
func normRes(r *api.LinuxResources, forOCI bool) *api.LinuxResources {
	c := proto.Clone(r).(*api.LinuxResources)
	if c == nil {
		c = &api.LinuxResources{}
	}
	if c.Memory == nil {
		c.Memory = &api.LinuxMemory{}
	}
	if c.Cpu == nil {
		c.Cpu = &api.LinuxCPU{}
	}
	if len(c.HugepageLimits) == 0 {
		c.HugepageLimits = nil
	}
	if len(c.Unified) == 0 {
		c.Unified = nil
	}
	if len(c.Devices) == 0 {
		c.Devices = nil
	}
	if forOCI {
		c.BlockioClass, c.RdtClass = nil, nil // OCI resources carry no class names
	}
	return c
}

func desc(base int, dev map[int]int) string {
	var parts []string
	for i, d := range dev {
		parts = append(parts, fmt.Sprintf("%s=%d", fields[i].name, d))
	}
	return fmt.Sprintf("baseline %d, deviations %v (0 unset, 1 zero/empty, 2 small, 3 extreme)", base, parts)
}

func checkResources(base int, dev map[int]int) {
	r := build(base, dev)
	eval()
	// NRI -> OCI -> NRI
	back := api.FromOCILinuxResources(r.ToOCI(), nil)
	if a, b := normRes(r, true), normRes(back, true); !proto.Equal(a, b) {
		fail("resources-nri-oci-nri|"+diffFields(a, b), "NRI->OCI->NRI changed the resources (%s):\n  before: %v\n  after:  %v", desc(base, dev), a, b)
	}
	// OCI -> NRI -> OCI
	o := r.ToOCI()
	o2 := api.FromOCILinuxResources(o, nil).ToOCI()
	j1, _ := json.Marshal(o)
	j2, _ := json.Marshal(o2)
	if string(j1) != string(j2) {
		fail("resources-oci-nri-oci", "OCI->NRI->OCI changed the resources (%s):\n  before: %s\n  after:  %s", desc(base, dev), j1, j2)
	}
	// Copy: equal on memory, CPU, hugepages, unified, pids and classes - and on the device cgroup rules
	// (outside C14's list, but "the runtime-requested resources" of C04/C05 pass through Copy: defect 18)
	c := r.Copy()
	a, b := normRes(r, false), normRes(c, false)
	if !proto.Equal(a, b) {
		fail("copy-not-equal|"+diffFields(a, b), "Copy() differs from the original (%s):\n  original: %v\n  copy:     %v", desc(base, dev), a, b)
	}
	// Copy shares no mutable state: mutate everything reachable in the copy
	before := proto.Clone(r)
	mutate(reflect.ValueOf(c), map[uintptr]bool{})
	if !proto.Equal(before, r) {
		fail("copy-aliases|"+diffFields(before.(*api.LinuxResources), r), "mutating the copy changed the original (%s):\n  original before: %v\n  original after:  %v", desc(base, dev), before, r)
	}
	c2 := r.Copy()
	snap := proto.Clone(c2)
	mutate(reflect.ValueOf(r), map[uintptr]bool{})
	if !proto.Equal(snap, c2) {
		fail("copy-aliases|"+diffFields(snap.(*api.LinuxResources), c2), "mutating the original changed the copy (%s)", desc(base, dev))
	}
}

func diffFields(a, b *api.LinuxResources) string {
	var out []string
	chk := func(name string, x, y any) {
		if !reflect.DeepEqual(fmt.Sprint(x), fmt.Sprint(y)) {
			out = append(out, name)
		}
	}
	if a.Memory == nil {
		a.Memory = &api.LinuxMemory{}
	}
	if b.Memory == nil {
		b.Memory = &api.LinuxMemory{}
	}
	if a.Cpu == nil {
		a.Cpu = &api.LinuxCPU{}
	}
	if b.Cpu == nil {
		b.Cpu = &api.LinuxCPU{}
	}
	chk("mem.limit", a.Memory.Limit, b.Memory.Limit)
	chk("mem.reservation", a.Memory.Reservation, b.Memory.Reservation)
	chk("mem.swap", a.Memory.Swap, b.Memory.Swap)
	chk("mem.kernel", a.Memory.Kernel, b.Memory.Kernel)
	chk("mem.kerneltcp", a.Memory.KernelTcp, b.Memory.KernelTcp)
	chk("mem.swappiness", a.Memory.Swappiness, b.Memory.Swappiness)
	chk("mem.disableoom", a.Memory.DisableOomKiller, b.Memory.DisableOomKiller)
	chk("mem.usehierarchy", a.Memory.UseHierarchy, b.Memory.UseHierarchy)
	chk("cpu.shares", a.Cpu.Shares, b.Cpu.Shares)
	chk("cpu.quota", a.Cpu.Quota, b.Cpu.Quota)
	chk("cpu.period", a.Cpu.Period, b.Cpu.Period)
	chk("cpu.rtruntime", a.Cpu.RealtimeRuntime, b.Cpu.RealtimeRuntime)
	chk("cpu.rtperiod", a.Cpu.RealtimePeriod, b.Cpu.RealtimePeriod)
	chk("cpu.cpus", a.Cpu.Cpus, b.Cpu.Cpus)
	chk("cpu.mems", a.Cpu.Mems, b.Cpu.Mems)
	chk("hugepages", a.HugepageLimits, b.HugepageLimits)
	chk("unified", a.Unified, b.Unified)
	chk("pids", a.Pids, b.Pids)
	chk("blockio", a.BlockioClass, b.BlockioClass)
	chk("rdt", a.RdtClass, b.RdtClass)
	chk("devices", a.Devices, b.Devices)
	if len(out) > 3 {
		out = append(out[:3], "...")
	}
	return strings.Join(out, "+")
}

// mutate changes every exported scalar, map entry and slice element reachable from v in place.
func mutate(v reflect.Value, seen map[uintptr]bool) {
	switch v.Kind() {
	case reflect.Ptr:
		if v.IsNil() || seen[v.Pointer()] {
			return
		}
		seen[v.Pointer()] = true
		mutate(v.Elem(), seen)
	case reflect.Struct:
		for i := 0; i < v.NumField(); i++ {
			if v.Type().Field(i).PkgPath != "" {
				continue // unexported (protobuf internals)
			}
			mutate(v.Field(i), seen)
		}
	case reflect.Slice:
		for i := 0; i < v.Len(); i++ {
			mutate(v.Index(i), seen)
		}
	case reflect.Map:
		for _, k := range v.MapKeys() {
			if v.Type().Elem().Kind() == reflect.String {
				v.SetMapIndex(k, reflect.ValueOf(v.MapIndex(k).String()+"#mutated"))
			}
		}
		if v.Type().Key().Kind() == reflect.String && v.Type().Elem().Kind() == reflect.String && !v.IsNil() {
			v.SetMapIndex(reflect.ValueOf("#added"), reflect.ValueOf("x"))
		}
	case reflect.String:
		if v.CanSet() {
			v.SetString(v.String() + "#mutated")
		}
	case reflect.Int, reflect.Int32, reflect.Int64:
		if v.CanSet() {
			v.SetInt(v.Int() ^ 0x55)
		}
	case reflect.Uint32, reflect.Uint64:
		if v.CanSet() {
			v.SetUint(v.Uint() ^ 0x55)
		}
	case reflect.Bool:
		if v.CanSet() {
			v.SetBool(!v.Bool())
		}
	}
}

func engineResources(thorough bool) {
	n := 0
	for base := 0; base < nStates; base++ {
		checkResources(base, nil)
		for i := range fields {
			for st := 0; st < nStates; st++ {
				if st == base {
					continue
				}
				checkResources(base, map[int]int{i: st})
				n++
			}
		}
		for i := range fields {
			for j := i + 1; j < len(fields); j++ {
				for si := 0; si < nStates; si++ {
					for sj := 0; sj < nStates; sj++ {
						if si == base || sj == base {
							continue
						}
						if !thorough && (si+sj+i+j)%2 == 1 {
							continue
						}
						checkResources(base, map[int]int{i: si, j: sj})
						n++
					}
				}
			}
		}
	}
	if thorough {
		// every triple of per-field deviations
		for base := 0; base < nStates; base++ {
			for i := range fields {
				for j := i + 1; j < len(fields); j++ {
					for k := j + 1; k < len(fields); k++ {
						for si := 0; si < nStates; si++ {
							for sj := 0; sj < nStates; sj++ {
								for sk := 0; sk < nStates; sk++ {
									if si == base || sj == base || sk == base {
										continue
									}
									checkResources(base, map[int]int{i: si, j: sj, k: sk})
									n++
								}
							}
						}
					}
				}
			}
		}
	}
	// nil handling
	eval()
	if api.FromOCILinuxResources(nil, nil) != nil {
		fail("resources-nil", "FromOCILinuxResources(nil) is not nil")
	}
	var nilRes *api.LinuxResources
	if nilRes.ToOCI() != nil || nilRes.Copy() != nil {
		fail("resources-nil", "ToOCI()/Copy() of a nil resource set is not nil")
	}
	// absent sub-messages
	for _, r := range []*api.LinuxResources{{}, {Memory: &api.LinuxMemory{}}, {Cpu: &api.LinuxCPU{Cpus: "1"}}} {
		eval()
		c := r.Copy()
		if !proto.Equal(normRes(r, false), normRes(c, false)) {
			fail("copy-not-equal|submessage", "Copy() of %v gives %v", r, c)
		}
		if (r.Memory == nil) != (c.Memory == nil) || (r.Cpu == nil) != (c.Cpu == nil) {
			fail("copy-not-equal|submessage-presence", "Copy() of %v changes which sections are present: %v", r, c)
		}
	}
	// every subset of the eight top-level sections present (the others absent, not merely empty), each
	// present section in each of its three states: a copy keeps exactly the sections and values it was given
	{
		secs := []struct {
			name string
			set  func(r *api.LinuxResources, st int)
		}{
			{"memory", func(r *api.LinuxResources, st int) { r.Memory = &api.LinuxMemory{Limit: i64(st)} }},
			{"cpu", func(r *api.LinuxResources, st int) { r.Cpu = &api.LinuxCPU{Shares: u64(st), Cpus: str(st)} }},
		}
		for _, nm := range []string{"pids", "hugepages", "unified", "blockio", "rdt", "devices"} {
			for _, f := range fields {
				if f.name == nm {
					secs = append(secs, struct {
						name string
						set  func(r *api.LinuxResources, st int)
					}{nm, f.set})
				}
			}
		}
		cnt := 0
		for mask := 0; mask < 1<<len(secs); mask++ {
			for st := 1; st <= 3; st++ {
				r := &api.LinuxResources{}
				var present []string
				for i, sc := range secs {
					if mask&(1<<i) != 0 {
						sc.set(r, st)
						present = append(present, sc.name)
					}
				}
				eval()
				cnt++
				c := r.Copy()
				a, b := normRes(r, false), normRes(c, false)
				if !proto.Equal(a, b) {
					fail("copy-not-equal|sections|"+diffFields(a, b), "Copy() of a resource set with only the sections %v present (state %d) differs:\n  original: %v\n  copy:     %v", present, st, r, c)
				}
				if (r.Memory == nil) != (c.Memory == nil) || (r.Cpu == nil) != (c.Cpu == nil) || (r.Pids == nil) != (c.Pids == nil) ||
					(r.BlockioClass == nil) != (c.BlockioClass == nil) || (r.RdtClass == nil) != (c.RdtClass == nil) {
					fail("copy-not-equal|sections-presence", "Copy() of a resource set with only the sections %v present (state %d) changes which sections are present: %v", present, st, c)
				}
			}
		}
		res.Bounds["resource_section_subsets"] = cnt
	}
	res.Bounds["resource_states"] = n
	res.Distinct += int64(n)
}

// ---- mounts, devices, hooks, env --------------------------------------

func engineSmall() {
	n := 0
	strs := []string{"", "x"}
	optsets := [][]string{nil, {}, {"ro"}, {"rbind", "rshared", ""}, {"rshared", "ro"}, {"rbind", "rslave", "ro", "rprivate", "nosuid"}, {"rprivate"}}
	for _, dst := range strs {
		for _, typ := range strs {
			for _, src := range strs {
				for _, opts := range optsets {
					eval()
					n++
					o := rspec.Mount{Destination: "/d" + dst, Type: typ, Source: src, Options: opts}
					back := api.FromOCIMounts([]rspec.Mount{o})
					if len(back) != 1 {
						fail("mount-count", "FromOCIMounts returned %d mounts for one", len(back))
						continue
					}
					o2 := back[0].ToOCI(nil)
					if o.Destination != o2.Destination || o.Type != o2.Type || o.Source != o2.Source || fmt.Sprint(o.Options) != fmt.Sprint(o2.Options) {
						fail("mount-oci-nri-oci", "mount %+v became %+v", o, o2)
					}
					m := &api.Mount{Destination: "/d" + dst, Type: typ, Source: src, Options: opts}
					m2 := api.FromOCIMounts([]rspec.Mount{m.ToOCI(nil)})[0]
					if m.Destination != m2.Destination || m.Type != m2.Type || m.Source != m2.Source || fmt.Sprint(m.Options) != fmt.Sprint(m2.Options) {
						fail("mount-nri-oci-nri", "mount %v became %v", m, m2)
					}
					// with a propagation query: the same mount, and the query holds the last propagation option
					var q string
					o3 := m.ToOCI(&q)
					wantQ := ""
					for _, op := range opts {
						if op == "rprivate" || op == "rshared" || op == "rslave" {
							wantQ = op
						}
					}
					if o3.Destination != m.Destination || o3.Type != m.Type || o3.Source != m.Source || fmt.Sprint(o3.Options) != fmt.Sprint(m.ToOCI(nil).Options) {
						fail("mount-with-propagation-query", "mount %v converted with a propagation query became %+v (without: %+v)", m, o3, m.ToOCI(nil))
					}
					if q != wantQ {
						fail("mount-propagation-query", "mount %v: propagation reported as %q, expected %q", m, q, wantQ)
					}
					if len(opts) > 0 && len(m2.Options) > 0 && &m2.Options[0] == &m.Options[0] {
						fail("mount-aliases", "converted mount shares its options slice with the source")
					}
				}
			}
		}
	}
	if api.FromOCIMounts(nil) != nil {
		fail("mount-nil", "FromOCIMounts(nil) is not nil")
	}
	// devices
	modes := []*os.FileMode{nil}
	for _, m := range []os.FileMode{0, 0o644, 0o777, 0o1000, os.ModeSetuid | 0o755, os.ModeDevice | os.ModeCharDevice | 0o600, os.FileMode(math.MaxUint32)} {
		m := m
		modes = append(modes, &m)
	}
	ids := []*uint32{nil}
	for _, x := range []uint32{0, 1, math.MaxUint32} {
		x := x
		ids = append(ids, &x)
	}
	for _, typ := range []string{"", "c", "b"} {
		for _, mj := range []int64{0, 1, -1, math.MaxInt64} {
			for _, fm := range modes {
				for _, uid := range ids {
					for _, gid := range ids {
						eval()
						n++
						o := rspec.LinuxDevice{Path: "/dev/x", Type: typ, Major: mj, Minor: mj / 2, FileMode: fm, UID: uid, GID: gid}
						o2 := api.FromOCILinuxDevices([]rspec.LinuxDevice{o})[0].ToOCI()
						j1, _ := json.Marshal(o)
						j2, _ := json.Marshal(o2)
						if string(j1) != string(j2) {
							kind := "other"
							if (o.FileMode == nil) != (o2.FileMode == nil) || (o.FileMode != nil && *o.FileMode != *o2.FileMode) {
								kind = "filemode"
							} else if fmt.Sprint(deref(o.UID), deref(o.GID)) != fmt.Sprint(deref(o2.UID), deref(o2.GID)) {
								kind = "uidgid"
							}
							fail("device-oci-nri-oci|"+kind, "device %s became %s", j1, j2)
						}
					}
				}
			}
		}
	}
	var nd *api.LinuxDevice
	if (nd.ToOCI() != rspec.LinuxDevice{}) {
		fail("device-nil", "nil device converts to a non-empty OCI device")
	}
	// hooks
	touts := []*int{nil}
	for _, x := range []int{0, 1, -1, math.MaxInt32} {
		x := x
		touts = append(touts, &x)
	}
	for _, args := range [][]string{nil, {}, {"a"}, {"a", ""}} {
		for _, env := range [][]string{nil, {"K=V"}, {"K=", "=V"}} {
			for _, to := range touts {
				eval()
				n++
				h := rspec.Hook{Path: "/bin/hook", Args: args, Env: env, Timeout: to}
				hs := &rspec.Hooks{Prestart: []rspec.Hook{h}, CreateRuntime: []rspec.Hook{h, h}, CreateContainer: []rspec.Hook{h}, StartContainer: []rspec.Hook{h}, Poststart: []rspec.Hook{h}, Poststop: []rspec.Hook{h}}
				nh := api.FromOCIHooks(hs)
				chk := func(stage string, in []rspec.Hook, out []*api.Hook) {
					if len(in) != len(out) {
						fail("hooks-count|"+stage, "%s: %d hooks became %d", stage, len(in), len(out))
						return
					}
					for i := range in {
						o2 := out[i].ToOCI()
						j1, _ := json.Marshal(in[i])
						j2, _ := json.Marshal(o2)
						if string(j1) != string(j2) {
							fail("hook-oci-nri-oci|"+stage, "%s hook %s became %s", stage, j1, j2)
						}
					}
				}
				chk("prestart", hs.Prestart, nh.Prestart)
				chk("createruntime", hs.CreateRuntime, nh.CreateRuntime)
				chk("createcontainer", hs.CreateContainer, nh.CreateContainer)
				chk("startcontainer", hs.StartContainer, nh.StartContainer)
				chk("poststart", hs.Poststart, nh.Poststart)
				chk("poststop", hs.Poststop, nh.Poststop)
			}
		}
	}
	// every subset of the six stages populated
	for mask := 0; mask < 64; mask++ {
		eval()
		n++
		h := rspec.Hook{Path: "/bin/h", Args: []string{"a"}}
		hs := &rspec.Hooks{}
		stages := []*[]rspec.Hook{&hs.Prestart, &hs.CreateRuntime, &hs.CreateContainer, &hs.StartContainer, &hs.Poststart, &hs.Poststop}
		names := []string{"prestart", "createruntime", "createcontainer", "startcontainer", "poststart", "poststop"}
		for i, st := range stages {
			if mask>>uint(i)&1 == 1 {
				*st = []rspec.Hook{h}
			}
		}
		nh := api.FromOCIHooks(hs)
		got := [][]*api.Hook{}
		if nh != nil {
			got = [][]*api.Hook{nh.Prestart, nh.CreateRuntime, nh.CreateContainer, nh.StartContainer, nh.Poststart, nh.Poststop}
		}
		for i := range stages {
			want := mask>>uint(i)&1 == 1
			have := nh != nil && len(got[i]) == 1 && got[i][0].Path == "/bin/h"
			if want != have {
				fail("hooks-stage-subset|"+names[i], "hooks with stages mask %06b populated: stage %s converted to %d hooks (whole result nil: %v)", mask, names[i], map[bool]int{true: 1, false: 0}[have], nh == nil)
			}
		}
	}
	if api.FromOCIHooks(nil) != nil {
		fail("hooks-nil", "FromOCIHooks(nil) is not nil")
	}
	// env
	for _, e := range []string{"K=V", "K=", "K=a=b", "K==", "LONG=" + strings.Repeat("v", 300), "k.with-chars_1=ü"} {
		eval()
		n++
		kv := api.FromOCIEnv([]string{e})
		if len(kv) != 1 || kv[0].ToOCI() != e {
			fail("env-roundtrip", "env %q became %v", e, kv)
		}
		k := &api.KeyValue{Key: strings.SplitN(e, "=", 2)[0], Value: strings.SplitN(e, "=", 2)[1]}
		b := api.FromOCIEnv([]string{k.ToOCI()})
		if len(b) != 1 || b[0].Key != k.Key || b[0].Value != k.Value {
			fail("env-roundtrip", "key/value %v became %v", k, b)
		}
	}
	if api.FromOCIEnv(nil) != nil {
		fail("env-nil", "FromOCIEnv(nil) is not nil")
	}
	res.Bounds["mount_device_hook_env_cases"] = n
	res.Distinct += int64(n)
}

func deref(p *uint32) any {
	if p == nil {
		return nil
	}
	return *p
}

// ---- optional constructors ---------------------------------------------

func engineOptional() {
	n := 0
	ck := func(name string, got any, wantNil bool, want any) {
		eval()
		n++
		v := reflect.ValueOf(got)
		if wantNil {
			if !v.IsNil() {
				fail("optional|"+name, "%s: expected unset, got %v", name, got)
			}
			return
		}
		if v.IsNil() {
			fail("optional|"+name, "%s: expected %v, got unset", name, want)
			return
		}
		if g := v.Elem().FieldByName("Value").Interface(); fmt.Sprint(g) != fmt.Sprint(want) {
			fail("optional|"+name, "%s: expected %v, got %v", name, want, g)
		}
	}
	for _, x := range []string{"", "a"} {
		x := x
		ck("String(value)", api.String(x), false, x)
		ck("String(pointer)", api.String(&x), false, x)
		ck("String(wrapper)", api.String(&api.OptionalString{Value: x}), false, x)
		if g := api.String(x).Get(); g == nil || *g != x {
			fail("optional|String.Get", "Get() of %q", x)
		}
	}
	ck("String(nil pointer)", api.String((*string)(nil)), true, nil)
	ck("String(nil wrapper)", api.String((*api.OptionalString)(nil)), true, nil)
	ck("String(nil)", api.String(nil), true, nil)
	if (*api.OptionalString)(nil).Get() != nil {
		fail("optional|String.Get", "Get() of unset is not nil")
	}
	for _, x := range []int{0, 1, -1, math.MaxInt32, math.MinInt32} {
		x := x
		ck("Int(value)", api.Int(x), false, int64(x))
		ck("Int(pointer)", api.Int(&x), false, int64(x))
		ck("Int(wrapper)", api.Int(&api.OptionalInt{Value: int64(x)}), false, int64(x))
		if g := api.Int(x).Get(); g == nil || *g != x {
			fail("optional|Int.Get", "Get() of %d", x)
		}
	}
	ck("Int(nil pointer)", api.Int((*int)(nil)), true, nil)
	ck("Int(nil)", api.Int(nil), true, nil)
	for _, x := range []int32{0, 1, -1, math.MaxInt32, math.MinInt32} {
		x := x
		ck("Int32(value)", api.Int32(x), false, x)
		ck("Int32(pointer)", api.Int32(&x), false, x)
		if g := api.Int32(x).Get(); g == nil || *g != x {
			fail("optional|Int32.Get", "Get() of %d", x)
		}
	}
	ck("Int32(nil pointer)", api.Int32((*int32)(nil)), true, nil)
	for _, x := range []uint32{0, 1, math.MaxUint32} {
		x := x
		ck("UInt32(value)", api.UInt32(x), false, x)
		ck("UInt32(pointer)", api.UInt32(&x), false, x)
		if g := api.UInt32(x).Get(); g == nil || *g != x {
			fail("optional|UInt32.Get", "Get() of %d", x)
		}
	}
	ck("UInt32(nil pointer)", api.UInt32((*uint32)(nil)), true, nil)
	for _, x := range []int64{0, 1, -1, math.MaxInt64, math.MinInt64} {
		x := x
		ck("Int64(value)", api.Int64(x), false, x)
		ck("Int64(pointer)", api.Int64(&x), false, x)
		ck("Int64(wrapper)", api.Int64(&api.OptionalInt64{Value: x}), false, x)
		if g := api.Int64(x).Get(); g == nil || *g != x {
			fail("optional|Int64.Get", "Get() of %d", x)
		}
	}
	ck("Int64(nil pointer)", api.Int64((*int64)(nil)), true, nil)
	ck("Int64(nil)", api.Int64(nil), true, nil)
	for _, x := range []uint64{0, 1, math.MaxUint64} {
		x := x
		ck("UInt64(value)", api.UInt64(x), false, x)
		ck("UInt64(pointer)", api.UInt64(&x), false, x)
		ck("UInt64(wrapper)", api.UInt64(&api.OptionalUInt64{Value: x}), false, x)
		if g := api.UInt64(x).Get(); g == nil || *g != x {
			fail("optional|UInt64.Get", "Get() of %d", x)
		}
	}
	ck("UInt64(nil pointer)", api.UInt64((*uint64)(nil)), true, nil)
	for _, x := range []bool{false, true} {
		x := x
		ck("Bool(value)", api.Bool(x), false, x)
		ck("Bool(pointer)", api.Bool(&x), false, x)
		ck("Bool(wrapper)", api.Bool(&api.OptionalBool{Value: x}), false, x)
		if g := api.Bool(x).Get(); g == nil || *g != x {
			fail("optional|Bool.Get", "Get() of %v", x)
		}
	}
	ck("Bool(nil pointer)", api.Bool((*bool)(nil)), true, nil)
	for _, x := range []os.FileMode{0, 0o644, 0o777, 0o1000, os.ModeSetuid | 0o755, os.ModeDevice | os.ModeCharDevice | 0o600, os.ModeDir | 0o700, os.FileMode(math.MaxUint32)} {
		x := x
		ck("FileMode(value)", api.FileMode(x), false, uint32(x))
		ck("FileMode(pointer)", api.FileMode(&x), false, uint32(x))
		ck("FileMode(uint32)", api.FileMode(uint32(x)), false, uint32(x))
		ck("FileMode(wrapper)", api.FileMode(&api.OptionalFileMode{Value: uint32(x)}), false, uint32(x))
		if g := api.FileMode(x).Get(); g == nil || *g != x {
			fail("optional|FileMode.Get", "Get() of %v", x)
		}
	}
	ck("FileMode(nil pointer)", api.FileMode((*os.FileMode)(nil)), true, nil)
	ck("FileMode(nil)", api.FileMode(nil), true, nil)
	res.Bounds["optional_constructor_cases"] = n
	res.Distinct += int64(n)
}

// ---- event masks ---------------------------------------------------------

func engineMasks() {
	for m := api.EventMask(1); m <= api.ValidEvents; m++ {
		eval()
		mm := m
		s := mm.PrettyString()
		p, err := api.ParseEventMask(s)
		if err != nil || p != m {
			fail("mask-print-parse", "mask 0x%x prints as %q which parses to 0x%x (err %v)", int32(m), s, int32(p), err)
		}
		if mm != m {
			fail("mask-print-mutates", "PrettyString() changed the mask 0x%x to 0x%x", int32(m), int32(mm))
		}
		// every set bit is named exactly once
		if got, want := len(strings.Split(s, ",")), bitsSet(int32(m)); got != want {
			fail("mask-print-parse", "mask 0x%x prints %d names for %d bits: %q", int32(m), got, want, s)
		}
	}
	res.Bounds["masks"] = int(api.ValidEvents)
	res.Distinct += int64(api.ValidEvents)
	for _, e := range []api.Event{api.Event_RUN_POD_SANDBOX, api.Event_REMOVE_CONTAINER, api.Event_POST_UPDATE_POD_SANDBOX} {
		var m api.EventMask
		m.Set(e)
		if !m.IsSet(e) || m.Clear(e) == nil || m != 0 {
			fail("mask-set-clear", "Set/IsSet/Clear of event %v inconsistent", e)
		}
	}
	for alias, want := range map[string]api.EventMask{"all": api.ValidEvents} {
		if p, err := api.ParseEventMask(alias); err != nil || p != want {
			fail("mask-alias", "%q parses to 0x%x", alias, int32(p))
		}
	}
}

func bitsSet(x int32) int {
	n := 0
	for ; x != 0; x &= x - 1 {
		n++
	}
	return n
}

func main() {
	f := rep.ParseFlags()
	prop = f.Prop
	res = &rep.Result{Property: f.Prop, Engine: "conv", Exhaustive: true, Bounds: map[string]any{},
		Rule:        "resources: 4 baselines (all unset / zero / small / extreme) with every single and every pair of per-field deviations over 21 fields x 4 states; mounts, devices (incl. special file mode bits), hooks, env over empty/non-empty/boundary fields; every optional constructor with value / pointer / wrapper / nil; all 8191 event masks; non-trivial = every generated case (each differs in at least one field), distinct by construction",
		Assumptions: []string{"env entries without '=' are malformed and excluded", "comparison is semantic: nil and empty collections are equal, an absent and an empty sub-message are equal, OCI resources carry no class names"}}
	if f.Replay != "" {
		fmt.Println("replay: re-running the deterministic enumeration")
	}
	engineResources(f.Thorough())
	engineSmall()
	engineOptional()
	engineMasks()
	res.Sample(map[string]any{"resources": desc(1, map[int]int{0: 0, 16: 2}), "checks": "NRI->OCI->NRI, OCI->NRI->OCI, Copy equality, Copy aliasing walk both ways"})
	res.Sample(map[string]any{"device": "FileMode = os.ModeSetuid|0755, UID unset, GID 0", "check": "OCI->NRI->OCI identical"})
	if f.Replay != "" {
		b, _ := os.ReadFile(f.Replay)
		var w struct {
			Signature string `json:"signature"`
		}
		json.Unmarshal(b, &w)
		for _, x := range res.Findings {
			if x.Signature == w.Signature {
				fmt.Printf("FINDING %s: %s\nVIOLATION property=%s replay=%s\n", x.Signature, x.Message, f.Prop, f.Replay)
				os.Exit(1)
			}
		}
		fmt.Println("no violation")
		return
	}
	res.Write(f)
}
