// Harness "merge": exhaustive bounded enumeration of plugin response
// sequences for creation / update / stop requests, executed on the real
// Adaptation with in-process fake plugins and compared step by step with the
// reference model refmerge. Decides C01-C05.
package main

import (
	"context"
	"encoding/json"
	"fmt"
	"hash/fnv"
	"os"
	"runtime"
	"sort"
	"strings"
	"sync"
	"sync/atomic"

	"github.com/containerd/nri/pkg/api"
	"google.golang.org/protobuf/proto"

	"nriverif/lib/items"
	"nriverif/lib/rep"
	"nriverif/lib/seam"
	"nriverif/ref/merge"
)

// Case is one request plus the scripted responses of the plugins.
type Case struct {
	Family string           `json:"family"`
	Chan   string           `json:"chan"` // channel by which writes arrive
	Req    merge.Request    `json:"-"`
	ReqJ   reqJSON          `json:"req"`
	Resps  []merge.Response `json:"resps"`
	Focus  []string         `json:"focus"` // item kinds under test (for signatures)
	Prepop string           `json:"prepop"`
}

type reqJSON struct {
	Kind     string           `json:"kind"`
	ID       string           `json:"id"`
	Orig     []string         `json:"orig"`
	OrigList map[string][]int `json:"orig_list,omitempty"`
}

func (c *Case) fill() {
	c.ReqJ = reqJSON{Kind: c.Req.Kind, ID: c.Req.ID, Orig: merge.SortedItems(c.Req.Orig), OrigList: c.Req.OrigList}
}

func parseItems(ss []string) map[merge.Item]int {
	m := map[merge.Item]int{}
	for _, s := range ss {
		eq := strings.LastIndex(s, "=")
		var v int
		fmt.Sscanf(s[eq+1:], "%d", &v)
		name := s[:eq]
		it := merge.Item{Kind: name}
		if i := strings.Index(name, ":"); i >= 0 {
			it = merge.Item{Kind: name[:i], Key: name[i+1:]}
		}
		m[it] = v
	}
	return m
}

func (c *Case) unfill() {
	c.Req = merge.Request{Kind: c.ReqJ.Kind, ID: c.ReqJ.ID, Orig: parseItems(c.ReqJ.Orig), OrigList: c.ReqJ.OrigList}
}

// ---------------------------------------------------------------------

// runner owns one long-lived Adaptation with nmax fakes per plugin count.
type runner struct {
	envs map[int]*seam.Env
	cur  *Case
	// observations of the current case
	views   []proto.Message // per invoked plugin, in invocation order
	invoked []int
}

func newRunner() *runner { return &runner{envs: map[int]*seam.Env{}} }

func (r *runner) env(n int, fresh bool) *seam.Env {
	if !fresh {
		if e := r.envs[n]; e != nil {
			return e
		}
	}
	e, err := seam.NewEnv()
	if err != nil {
		rep.Fatal(nil, "adaptation.New: %v", err)
	}
	// register in reverse order so that sorting is exercised
	for p := n - 1; p >= 0; p-- {
		pos := p
		e.AddFake(seam.StdIdx(p), fmt.Sprintf("p%d", p), api.ValidEvents, func(f *seam.Fake, method string, req any) (any, error) {
			return r.handle(pos, method, req)
		})
	}
	if !fresh {
		r.envs[n] = e
	}
	return e
}

func (r *runner) handle(pos int, method string, req any) (any, error) {
	c := r.cur
	r.invoked = append(r.invoked, pos)
	resp := c.Resps[pos]
	switch method {
	case "CreateContainer":
		r.views = append(r.views, proto.Clone(req.(*api.CreateContainerRequest).Container))
		return &api.CreateContainerResponse{Adjust: items.BuildAdjustment(resp.Adjust), Update: items.BuildUpdates(resp.Updates)}, nil
	case "UpdateContainer":
		r.views = append(r.views, proto.Clone(req.(*api.UpdateContainerRequest).LinuxResources))
		return &api.UpdateContainerResponse{Update: items.BuildUpdates(resp.Updates)}, nil
	case "StopContainer":
		r.views = append(r.views, nil)
		return &api.StopContainerResponse{Update: items.BuildUpdates(resp.Updates)}, nil
	}
	return nil, fmt.Errorf("unexpected call %s", method)
}

type implResult struct {
	err     error
	adjust  *api.ContainerAdjustment
	updates []*api.ContainerUpdate
	views   []proto.Message
	invoked []int
	nilResp bool
	panicV  string
}

var pod = &api.PodSandbox{Id: "pod0", Name: "pod0", Namespace: "ns"}

func (r *runner) exec(c *Case, fresh bool) (res implResult) {
	e := r.env(len(c.Resps), fresh)
	r.cur, r.views, r.invoked = c, nil, nil
	defer func() {
		if p := recover(); p != nil {
			buf := make([]byte, 4096)
			n := runtime.Stack(buf, false)
			res.panicV = fmt.Sprintf("%v\n%s", p, buf[:n])
			// the adaptation lock is poisoned: drop the environment
			delete(r.envs, len(c.Resps))
		}
	}()
	ctx := context.Background()
	switch c.Req.Kind {
	case "create":
		rpl, err := e.R.CreateContainer(ctx, &api.CreateContainerRequest{Pod: pod, Container: items.BuildContainer(c.Req.ID, c.Req.Orig, c.Req.OrigList)})
		res.err = err
		if rpl != nil {
			res.adjust, res.updates = rpl.Adjust, rpl.Update
		} else {
			res.nilResp = true
		}
	case "update":
		lres := items.BuildResources(c.Req.Orig)
		if d := reqDeviceRules(c); d != nil {
			if lres == nil {
				lres = &api.LinuxResources{}
			}
			lres.Devices = d
		}
		rpl, err := e.R.UpdateContainer(ctx, &api.UpdateContainerRequest{Pod: pod, Container: &api.Container{Id: c.Req.ID, PodSandboxId: "pod0"}, LinuxResources: lres})
		res.err = err
		if rpl != nil {
			res.updates = rpl.Update
		} else {
			res.nilResp = true
		}
	case "stop":
		rpl, err := e.R.StopContainer(ctx, &api.StopContainerRequest{Pod: pod, Container: &api.Container{Id: c.Req.ID, PodSandboxId: "pod0"}})
		res.err = err
		if rpl != nil {
			res.updates = rpl.Update
		} else {
			res.nilResp = true
		}
	}
	res.views, res.invoked = r.views, r.invoked
	return res
}

// ---------------------------------------------------------------------

type stats struct {
	mu       sync.Mutex
	res      *rep.Result
	seen     map[uint64]struct{}
	evals    int64
	states   int64
	trans    int64
	nontriv  int64
	fresh    int64
	freshBad int64
}

func main() {
	f := rep.ParseFlags()
	if f.Replay != "" {
		replay(f)
		return
	}
	res := &rep.Result{Property: f.Prop, Engine: "merge", Exhaustive: true,
		Rule: "every case = (request kind, original container/request, per-plugin scripted response) generated by the bounded alphabet of the families listed in bounds; distinct = distinct case encodings (hash); non-trivial = at least two plugins write something",
		Assumptions: []string{
			"fake plugins are injected at the pluginType.ttrpcImpl seam; the ttrpc transport is not part of these cases",
			"values are drawn from a small alphabet in which every plugin's value is distinguishable",
		}}
	st := &stats{res: res, seen: map[uint64]struct{}{}}
	bounds := map[string]any{}
	res.Bounds = bounds

	nw := runtime.NumCPU()
	ch := make(chan *Case, 1024)
	var wg sync.WaitGroup
	for w := 0; w < nw; w++ {
		wg.Add(1)
		go func() {
			defer wg.Done()
			r := newRunner()
			k := 0
			for c := range ch {
				k++
				checkCase(f.Prop, r, c, st, k%97 == 0)
			}
		}()
	}
	generate(f, bounds, func(c *Case) { ch <- c })
	close(ch)
	wg.Wait()

	res.Evaluations = st.evals
	res.States = st.states
	res.Transitions = st.trans
	res.Distinct = st.nontriv
	bounds["fresh_instance_reruns"] = st.fresh
	res.Write(f)
}

func hashCase(c *Case) uint64 {
	h := fnv.New64a()
	b, _ := json.Marshal(c)
	h.Write(b)
	return h.Sum64()
}

func touches(r merge.Response) bool {
	if len(r.Adjust) > 0 {
		return true
	}
	for _, u := range r.Updates {
		if len(u.Sets) > 0 {
			return true
		}
	}
	return false
}

var kindInfos = items.KindInfos()

func checkCase(prop string, r *runner, c *Case, st *stats, alsoFresh bool) {
	c.fill()
	h := hashCase(c)
	v := merge.Run(c.Req, kindInfos, c.Resps)
	ir := r.exec(c, false)

	nt := 0
	for _, rs := range c.Resps {
		if touches(rs) {
			nt++
		}
	}
	st.mu.Lock()
	st.evals++
	st.states += int64(len(v.Views) + 1)
	st.trans += int64(len(v.Views))
	if _, dup := st.seen[h]; !dup {
		st.seen[h] = struct{}{}
		if nt >= 2 {
			st.nontriv++
		}
	}
	if st.evals%50000 == 1 {
		st.res.Sample(c)
	}
	st.mu.Unlock()

	var fs []finding
	fs = append(fs, evaluate(prop, c, &v, &ir)...)
	if alsoFresh {
		// differential: the same case on a fresh Adaptation must behave identically
		ir2 := r.exec(c, true)
		atomic.AddInt64(&st.fresh, 1)
		if d := diffImpl(&ir, &ir2); d != "" {
			fs = append(fs, finding{sig: fmt.Sprintf("%s|state-leak|%s|%s", prop, strings.Join(c.Focus, "+"), c.Chan),
				msg: "long-lived and fresh Adaptation disagree: " + d})
		}
	}
	if len(fs) > 0 {
		st.mu.Lock()
		for _, x := range fs {
			st.res.Add(x.sig, x.msg+"\n  case: "+describe(c), c)
		}
		st.mu.Unlock()
	}
}

func diffImpl(a, b *implResult) string {
	if (a.err == nil) != (b.err == nil) {
		return fmt.Sprintf("error %v vs %v", a.err, b.err)
	}
	if a.err != nil && a.err.Error() != b.err.Error() {
		return fmt.Sprintf("error %q vs %q", a.err, b.err)
	}
	if !proto.Equal(a.adjust, b.adjust) {
		return "different adjustment"
	}
	if len(a.updates) != len(b.updates) {
		return "different number of updates"
	}
	for i := range a.updates {
		if !proto.Equal(a.updates[i], b.updates[i]) {
			return fmt.Sprintf("different update #%d", i)
		}
	}
	return ""
}

func describe(c *Case) string {
	var sb strings.Builder
	fmt.Fprintf(&sb, "%s %s id=%s orig=%v", c.Family, c.Req.Kind, c.Req.ID, merge.SortedItems(c.Req.Orig))
	for p, r := range c.Resps {
		fmt.Fprintf(&sb, " | P%d:", p)
		for _, op := range r.Adjust {
			if op.Remove {
				fmt.Fprintf(&sb, " -%s", op.Item)
			} else {
				fmt.Fprintf(&sb, " %s=%d", op.Item, op.Val)
			}
		}
		for _, u := range r.Updates {
			fmt.Fprintf(&sb, " upd(%s", u.Target)
			if u.Ignore {
				sb.WriteString(",ignore")
			}
			for _, op := range u.Sets {
				fmt.Fprintf(&sb, " %s=%d", op.Item, op.Val)
			}
			sb.WriteString(")")
		}
	}
	return sb.String()
}

func replay(f *rep.Flags) {
	b, err := os.ReadFile(f.Replay)
	if err != nil {
		rep.Fatal(f, "%v", err)
	}
	var wrap struct {
		Property string `json:"property"`
		Replay   Case   `json:"replay"`
	}
	if err := json.Unmarshal(b, &wrap); err != nil {
		rep.Fatal(f, "%v", err)
	}
	c := &wrap.Replay
	c.unfill()
	prop := f.Prop
	if prop == "" {
		prop = wrap.Property
	}
	v := merge.Run(c.Req, kindInfos, c.Resps)
	r := newRunner()
	ir := r.exec(c, true)
	fmt.Println("case:", describe(c))
	fmt.Printf("model: fail=%v at=%d kind=%s item=%s dontcare=%v\n", v.Fail, v.FailAt, v.FailKind, v.FailItem, v.DontCare)
	fmt.Printf("impl:  err=%v nilResp=%v invoked=%v panic=%q\n", ir.err, ir.nilResp, ir.invoked, ir.panicV)
	if ir.adjust != nil {
		fmt.Println("impl adjust:", ir.adjust.String())
	}
	for _, u := range ir.updates {
		fmt.Println("impl update:", u.String())
	}
	fs := evaluate(prop, c, &v, &ir)
	sort.Slice(fs, func(i, j int) bool { return fs[i].sig < fs[j].sig })
	for _, x := range fs {
		fmt.Printf("FINDING %s: %s\n", x.sig, x.msg)
	}
	if len(fs) > 0 {
		fmt.Printf("VIOLATION property=%s replay=%s\n", prop, f.Replay)
		os.Exit(1)
	}
	fmt.Println("no violation")
}

// reqDeviceRules: a fully populated update request also carries device cgroup rules. No plugin of the
// alphabet touches them, so every plugin must be shown them and the updated container's entry - the
// runtime-requested resources overlaid with the plugins' changes - must still carry them.
func reqDeviceRules(c *Case) []*api.LinuxDeviceCgroup {
	if c.Req.Kind != "update" || c.Prepop != "full" {
		return nil
	}
	return []*api.LinuxDeviceCgroup{
		{Allow: false, Type: "a", Access: "rwm"},
		{Allow: true, Type: "c", Major: api.Int64(int64(5)), Minor: api.Int64(int64(7)), Access: "rw"},
	}
}

func sameDeviceRules(a, b []*api.LinuxDeviceCgroup) bool {
	if len(a) != len(b) {
		return false
	}
	for i := range a {
		if !proto.Equal(a[i], b[i]) {
			return false
		}
	}
	return true
}
