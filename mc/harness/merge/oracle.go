package main

import (
	"encoding/json"
	"fmt"
	"regexp"
	"sort"
	"strings"

	"github.com/containerd/nri/pkg/api"
	nrigen "github.com/containerd/nri/pkg/runtime-tools/generate"
	rspec "github.com/opencontainers/runtime-spec/specs-go"
	ocigen "github.com/opencontainers/runtime-tools/generate"
	"google.golang.org/protobuf/proto"

	"nriverif/lib/items"
	"nriverif/ref/merge"
)

type finding struct{ sig, msg string }

var subjectRe = regexp.MustCompile(`both tried to set (.*)$`)

func focus(c *Case) string { return strings.Join(c.Focus, "+") }

func evaluate(prop string, c *Case, v *merge.Verdict, ir *implResult) []finding {
	var fs []finding
	add := func(sig, msg string, a ...any) { fs = append(fs, finding{prop + "|" + sig, fmt.Sprintf(msg, a...)}) }
	if ir.panicV != "" {
		add("panic|"+focus(c)+"|"+c.Chan, "the request panicked: %s", ir.panicV)
		return fs
	}
	implFail := ir.err != nil
	switch prop {
	case "C01":
		if v.Fail && !v.DontCare {
			if !implFail {
				add(fmt.Sprintf("missed-%s|%s|%s", v.FailKind, v.FailItem.Kind, c.Chan),
					"model: plugin P%d's write of %s must fail the request (%s, earlier owner P%d), but the request succeeded", v.FailAt, v.FailItem, v.FailKind, v.FailPrev)
			} else if !ir.nilResp {
				add("partial-result-with-error|"+focus(c)+"|"+c.Chan, "request failed (%v) but a response was returned", ir.err)
			}
		}
	case "C02":
		if !v.Fail && !v.DontCare && implFail {
			subj := "?"
			if m := subjectRe.FindStringSubmatch(ir.err.Error()); m != nil {
				subj = m[1]
			}
			add(fmt.Sprintf("false-conflict|subject=%s|%s|%s%s", subj, focus(c), c.Chan, prepopTag(c)),
				"no two plugins set the same item, yet the request failed: %v", ir.err)
		}
	case "C03":
		if c.Req.Kind == "create" && !v.Fail && !implFail && !v.DontCare {
			fs = append(fs, checkC03(prop, c, v, ir)...)
		}
	case "C04":
		if !v.DontCare {
			fs = append(fs, checkC04(prop, c, v, ir)...)
		}
		// "what a plugin is shown agrees with what the runtime would obtain by applying the result combined
		// so far": the views are compared with the model above; here the combined result, applied to the
		// original by the generator, is compared with the model's state after the last plugin - which is
		// what a further plugin would be shown (and is shown, in the chains whose last plugin sets nothing).
		if len(fs) == 0 && c.Req.Kind == "create" && !v.Fail && !implFail && !v.DontCare {
			for _, f := range checkC03(prop, c, v, ir) {
				if strings.Contains(f.sig, "combined-vs-model") {
					fs = append(fs, finding{strings.Replace(f.sig, "combined-vs-model", "applied-vs-shown", 1),
						"applying the result combined so far does not give what the next plugin is shown: " + f.msg})
				}
			}
		}
	case "C05":
		if v.Fail && v.FailKind == "self-update" && !implFail {
			add("self-update-accepted|"+c.Chan, "an update targeting the container under creation did not fail the request")
		}
		if !v.Fail && !implFail && !v.DontCare {
			fs = append(fs, checkC05(prop, c, v, ir)...)
		}
	}
	return fs
}

func prepopTag(c *Case) string {
	if c.Prepop != "" {
		return "|prepop=" + c.Prepop
	}
	return ""
}

// ---- C04 -------------------------------------------------------------

func diffKinds(exp, got map[merge.Item]int) (kinds []string, detail []string) {
	ks := map[string]bool{}
	for it, ev := range exp {
		gv, ok := got[it]
		switch {
		case !ok:
			ks[it.Kind] = true
			detail = append(detail, fmt.Sprintf("%s missing (expected %d)", it, ev))
		case items.Norm(it.Kind, gv) != items.Norm(it.Kind, ev):
			ks[it.Kind] = true
			detail = append(detail, fmt.Sprintf("%s=%d (expected %d)", it, gv, ev))
		}
	}
	for it, gv := range got {
		if _, ok := exp[it]; !ok {
			ks[it.Kind] = true
			detail = append(detail, fmt.Sprintf("%s=%d unexpected", it, gv))
		}
	}
	for k := range ks {
		kinds = append(kinds, k)
	}
	sort.Strings(kinds)
	sort.Strings(detail)
	return
}

func diffLists(exp, got map[string][]int) (kinds []string, detail []string) {
	all := map[string]bool{}
	for k := range exp {
		all[k] = true
	}
	for k := range got {
		all[k] = true
	}
	for k := range all {
		if fmt.Sprint(exp[k]) != fmt.Sprint(got[k]) && (len(exp[k]) != 0 || len(got[k]) != 0) {
			kinds = append(kinds, k)
			detail = append(detail, fmt.Sprintf("%s list %v (expected %v)", k, got[k], exp[k]))
		}
	}
	sort.Strings(kinds)
	sort.Strings(detail)
	return
}

func checkC04(prop string, c *Case, v *merge.Verdict, ir *implResult) []finding {
	var fs []finding
	if c.Req.Kind == "stop" {
		return nil
	}
	n := len(v.Views)
	if len(ir.views) < n {
		n = len(ir.views)
	}
	// a disagreement on failure is C01/C02's business; compare the common prefix
	for k := 0; k < n; k++ {
		if ir.invoked[k] != k {
			fs = append(fs, finding{prop + "|invocation-order|" + c.Chan, fmt.Sprintf("plugin at chain position %d was P%d", k, ir.invoked[k])})
			return fs
		}
		var got map[merge.Item]int
		gotL := map[string][]int{}
		var problems []string
		if c.Req.Kind == "create" {
			got, gotL, problems = items.ReadContainer(ir.views[k].(*api.Container))
		} else {
			got = map[merge.Item]int{}
			lr, _ := ir.views[k].(*api.LinuxResources)
			items.ReadResources(lr, got)
			if want := reqDeviceRules(c); want != nil && !sameDeviceRules(want, lr.GetDevices()) {
				fs = append(fs, finding{fmt.Sprintf("%s|view-mismatch|cgroup-device-rules|%s", prop, c.Chan),
					fmt.Sprintf("the update request carries device cgroup rules %v, plugin at position %d was shown %v", want, k, lr.GetDevices())})
				return fs
			}
		}
		kinds, detail := diffKinds(v.Views[k].Cont, got)
		lk, ld := diffLists(v.Views[k].Lists, gotL)
		kinds = append(kinds, lk...)
		detail = append(detail, ld...)
		for _, p := range problems {
			kinds = append(kinds, "dup")
			detail = append(detail, p)
		}
		if len(kinds) > 0 {
			fs = append(fs, finding{fmt.Sprintf("%s|view-mismatch|%s|%s", prop, strings.Join(uniq(kinds), "+"), c.Chan),
				fmt.Sprintf("what plugin at position %d was shown differs from the original with the earlier plugins' changes applied: %s", k, strings.Join(detail, "; "))})
			return fs
		}
	}
	return fs
}

func uniq(s []string) []string {
	sort.Strings(s)
	var o []string
	for i, x := range s {
		if i == 0 || x != s[i-1] {
			o = append(o, x)
		}
	}
	return o
}

// ---- C05 -------------------------------------------------------------

func hasFields(u *api.ContainerUpdate) bool {
	if u == nil {
		return false
	}
	m := map[merge.Item]int{}
	items.ReadResources(u.GetLinux().GetResources(), m)
	return len(m) > 0
}

func checkC05(prop string, c *Case, v *merge.Verdict, ir *implResult) []finding {
	var fs []finding
	add := func(sig, msg string, a ...any) {
		fs = append(fs, finding{prop + "|" + sig + "|" + c.Chan + prepopTag(c), fmt.Sprintf(msg, a...)})
	}
	st := v.Final
	ups := ir.updates
	ownLast := c.Req.Kind == "update"
	named := map[string]bool{}
	for _, t := range st.UpdSeen {
		named[t] = true
	}
	if ownLast {
		if len(ups) == 0 {
			add("own-entry-missing", "update reply has no entry for the container being updated")
			return fs
		}
		last := ups[len(ups)-1]
		ups = ups[:len(ups)-1]
		if last != nil && last.ContainerId != c.Req.ID {
			add("own-entry-not-last", "last entry of the update reply is for %q, not the updated container", last.ContainerId)
			return fs
		}
		if st.OwnChanged {
			if last == nil {
				add("own-entry-empty", "plugins changed the updated container but its entry is a nil placeholder")
				return fs
			}
			got := map[merge.Item]int{}
			items.ReadResources(last.GetLinux().GetResources(), got)
			if kinds, detail := diffKinds(st.Cont, got); len(kinds) > 0 {
				add("own-entry-fields|"+strings.Join(kinds, "+"), "entry of the updated container is not the requested resources overlaid with the plugins' changes: %s", strings.Join(detail, "; "))
			}
			if want := reqDeviceRules(c); want != nil && !sameDeviceRules(want, last.GetLinux().GetResources().GetDevices()) {
				add("own-entry-fields|cgroup-device-rules", "entry of the updated container is not the requested resources overlaid with the plugins' changes: the request's device cgroup rules %v came back as %v", want, last.GetLinux().GetResources().GetDevices())
			}
		} else if hasFields(last) {
			got := map[merge.Item]int{}
			items.ReadResources(last.GetLinux().GetResources(), got)
			// A plugin that names the updated container in an update setting no field has not changed it;
			// whether its entry is then the placeholder or the runtime-requested resources overlaid with
			// nothing (= exactly what the runtime asked for) the statement leaves open: both are accepted,
			// anything else is not.
			namedOwn := false
			for _, t := range st.UpdSeen {
				namedOwn = namedOwn || t == c.Req.ID
			}
			if namedOwn {
				if kinds, detail := diffKinds(st.Cont, got); len(kinds) > 0 {
					add("own-entry-fields|"+strings.Join(kinds, "+"), "entry of the updated container (named by an update that sets nothing) is neither a placeholder nor the requested resources: %s", strings.Join(detail, "; "))
				}
			} else {
				add("own-entry-not-placeholder", "no plugin changed the updated container but its entry carries %v", merge.SortedItems(got))
			}
		}
	}
	seen := map[string]bool{}
	for _, u := range ups {
		if u == nil {
			add("nil-entry", "nil entry among the third-party updates")
			continue
		}
		if seen[u.ContainerId] {
			add("duplicate-target", "two entries for target %q", u.ContainerId)
		}
		seen[u.ContainerId] = true
		if ownLast && u.ContainerId == c.Req.ID {
			add("own-entry-not-last", "the updated container's entry is not last")
			continue
		}
		got := map[merge.Item]int{}
		items.ReadResources(u.GetLinux().GetResources(), got)
		exp := st.Upd[u.ContainerId]
		if exp == nil {
			if len(got) > 0 || !named[u.ContainerId] {
				add("unexpected-entry", "entry for %q carrying %v although no plugin update for it was accepted", u.ContainerId, merge.SortedItems(got))
			}
			continue
		}
		if kinds, detail := diffKinds(exp, got); len(kinds) > 0 {
			add("entry-fields|"+strings.Join(kinds, "+"), "entry for %q does not carry exactly the fields plugins set: %s", u.ContainerId, strings.Join(detail, "; "))
		}
	}
	for t, exp := range st.Upd {
		if ownLast && t == c.Req.ID {
			continue
		}
		if len(exp) > 0 && !seen[t] {
			add("missing-entry", "no entry for target %q (plugins set %v)", t, merge.SortedItems(exp))
		}
	}
	return fs
}

// ---- C03 -------------------------------------------------------------

type cdiRec struct{ names []string }

func newGen(spec *rspec.Spec, rec *cdiRec) *nrigen.Generator {
	g := ocigen.NewFromSpec(spec)
	return nrigen.SpecGenerator(&g,
		nrigen.WithBlockIOResolver(func(c string) (*rspec.LinuxBlockIO, error) { return items.ResolveBlockIO(c), nil }),
		nrigen.WithRdtResolver(func(c string) (*rspec.LinuxIntelRdt, error) { return items.ResolveRdt(c), nil }),
		nrigen.WithCDIDeviceInjector(func(_ *rspec.Spec, names []string) error {
			rec.names = append(rec.names, names...)
			return nil
		}),
	)
}

func normSpecJSON(s *rspec.Spec) string {
	b, _ := json.Marshal(s)
	var c rspec.Spec
	json.Unmarshal(b, &c)
	if c.Process != nil {
		sort.Strings(c.Process.Env)
	}
	if c.Linux != nil {
		sort.Slice(c.Linux.Devices, func(i, j int) bool { return c.Linux.Devices[i].Path < c.Linux.Devices[j].Path })
		if r := c.Linux.Resources; r != nil {
			// cgroup device rules are a side effect of adding a device which
			// the generator does not revoke when the device is removed again;
			// compare only the rules of devices that are present
			var keep []rspec.LinuxDeviceCgroup
			for _, d := range r.Devices {
				for _, ld := range c.Linux.Devices {
					if d.Major != nil && d.Minor != nil && *d.Major == ld.Major && *d.Minor == ld.Minor && d.Type == ld.Type {
						keep = append(keep, d)
						break
					}
				}
			}
			r.Devices = keep
			if b, _ := json.Marshal(r); string(b) == "{}" {
				c.Linux.Resources = nil // an empty resources section carries nothing
			}
			js := func(d rspec.LinuxDeviceCgroup) string { b, _ := json.Marshal(d); return string(b) }
			sort.Slice(r.Devices, func(i, j int) bool { return js(r.Devices[i]) < js(r.Devices[j]) })
			// the same rule twice (a device removed and added again with the same numbers) allows
			// exactly what the rule allows once
			var uniq []rspec.LinuxDeviceCgroup
			for i, d := range r.Devices {
				if i == 0 || js(d) != js(r.Devices[i-1]) {
					uniq = append(uniq, d)
				}
			}
			r.Devices = uniq
			sort.Slice(r.HugepageLimits, func(i, j int) bool { return r.HugepageLimits[i].Pagesize < r.HugepageLimits[j].Pagesize })
		}
	}
	o, _ := json.Marshal(&c)
	return string(o)
}

func checkC03(prop string, c *Case, v *merge.Verdict, ir *implResult) []finding {
	var fs []finding
	add := func(sig, msg string, a ...any) {
		fs = append(fs, finding{prop + "|" + sig + "|" + c.Chan, fmt.Sprintf(msg, a...)})
	}
	orig := func() *rspec.Spec {
		return items.SpecFromContainer(items.BuildContainer(c.Req.ID, c.Req.Orig, c.Req.OrigList))
	}
	// (a) the combined adjustment
	recA := &cdiRec{}
	specA := orig()
	gA := newGen(specA, recA)
	if err := gA.Adjust(proto.Clone(ir.adjust).(*api.ContainerAdjustment)); err != nil {
		add("generator-error", "applying the combined adjustment failed: %v", err)
		return fs
	}
	// (b) each plugin's adjustment in turn
	recB := &cdiRec{}
	specB := orig()
	gB := newGen(specB, recB)
	for _, r := range c.Resps {
		// A plugin's own adjustment uses the documented args marker (first
		// element "" = "I replace the command line"); it is resolved by the
		// runtime adaptation, the generator never sees it. Resolve it here.
		adj := items.BuildAdjustment(r.Adjust)
		if adj != nil && len(adj.Args) > 0 && adj.Args[0] == "" {
			adj.Args = adj.Args[1:]
		}
		if err := gB.Adjust(adj); err != nil {
			add("generator-error", "applying a plugin's own adjustment failed: %v", err)
			return fs
		}
	}
	contA, listA, probA := items.ReadSpec(gA.Config)
	contB, listB, _ := items.ReadSpec(gB.Config)
	for _, n := range recA.names {
		listA["cdi"] = append(listA["cdi"], items.CDIVal(n))
	}
	for _, n := range recB.names {
		listB["cdi"] = append(listB["cdi"], items.CDIVal(n))
	}
	kinds, detail := diffKinds(contB, contA)
	lk, ld := diffLists(listB, listA)
	kinds, detail = append(kinds, lk...), append(detail, ld...)
	for _, p := range probA {
		kinds, detail = append(kinds, "dup"), append(detail, p)
	}
	if len(kinds) > 0 {
		add("combined-vs-sequential|"+strings.Join(uniq(kinds), "+"), "applying the combined adjustment differs from applying each plugin's adjustment in turn (combined vs sequential): %s", strings.Join(detail, "; "))
	} else if a, b := normSpecJSON(gA.Config), normSpecJSON(gB.Config); a != b {
		add("combined-vs-sequential|spec", "specs differ outside the modelled items:\n combined:   %s\n sequential: %s", a, b)
	}
	// (c) cross-check against the reference model so that a defect common to (a) and (b) cannot hide
	exp := map[merge.Item]int{}
	for it, val := range v.Final.Cont {
		k := items.K(it.Kind)
		if k.GenIgnores {
			continue
		}
		if it.Kind == "mem.limit" && val == 0 {
			// the generator ignores a zero memory limit
			ov, ok := c.Req.Orig[it]
			if !ok {
				continue
			}
			val = ov
		}
		exp[it] = val
	}
	gotA := map[merge.Item]int{}
	for it, val := range contA {
		if !items.K(it.Kind).GenIgnores {
			gotA[it] = val
		}
	}
	if kinds, detail := diffKinds(exp, gotA); len(kinds) > 0 {
		add("combined-vs-model|"+strings.Join(kinds, "+"), "the container obtained from the combined adjustment differs from the reference model: %s", strings.Join(detail, "; "))
	}
	expL := map[string][]int{}
	for k, l := range v.Final.Lists {
		expL[k] = l
	}
	if ks := v.Final.ListKey["cdi"]; len(ks) > 0 {
		expL["cdi"] = nil
		for _, k := range ks {
			expL["cdi"] = append(expL["cdi"], items.CDIVal(k))
		}
	}
	if lk, ld := diffLists(expL, listA); len(lk) > 0 {
		add("combined-vs-model|"+strings.Join(lk, "+"), "ordered families differ from the reference model: %s", strings.Join(ld, "; "))
	}
	// kinds the generator does not apply: compare the reply itself
	gotR := map[merge.Item]int{}
	items.ReadResources(ir.adjust.GetLinux().GetResources(), gotR)
	expR := map[merge.Item]int{}
	for it := range v.Final.Touched {
		if items.K(it.Kind).GenIgnores {
			expR[it] = v.Final.Cont[it]
		}
	}
	for it := range gotR {
		if !items.K(it.Kind).GenIgnores {
			delete(gotR, it)
		}
	}
	if kinds, detail := diffKinds(expR, gotR); len(kinds) > 0 {
		add("reply-vs-model|"+strings.Join(kinds, "+"), "resource fields of the combined adjustment differ from what the plugins set: %s", strings.Join(detail, "; "))
	}
	return fs
}
