package main

import (
	"fmt"

	"nriverif/lib/items"
	"nriverif/lib/rep"
	"nriverif/ref/merge"
)

const (
	own    = "c0"
	otherX = "cX"
	otherY = "cY"
)

func pval(p, j int) int { return 10*(p+1) + j }

const origVal = 5

// fullOrig is a container / request carrying a value for every kind.
func fullOrig(update bool) (map[merge.Item]int, map[string][]int) {
	m := map[merge.Item]int{}
	l := map[string][]int{}
	for _, k := range items.Kinds {
		if update && !k.InUpdate {
			continue
		}
		switch {
		case k.Append:
			if !update {
				l[k.Name] = []int{origVal, origVal + 1}
			}
		case k.Name == "cdi":
		case k.Name == "rlimit":
			if !update {
				l[k.Name] = []int{origVal}
			}
		case k.Keyed:
			for i, key := range k.Keys {
				m[merge.Item{Kind: k.Name, Key: key}] = origVal + i
			}
		default:
			m[merge.Item{Kind: k.Name}] = origVal
		}
	}
	return m, l
}

type chanSpec struct {
	name   string
	req    string // request kind
	adjust bool   // writes travel in the adjustment (else in an update)
	target string
}

var channels = []chanSpec{
	{"create.adjust", "create", true, own},
	{"create.update.other", "create", false, otherX},
	{"update.update.own", "update", false, own},
	{"update.update.other", "update", false, otherX},
	{"stop.update.own", "stop", false, own},
	{"stop.update.other", "stop", false, otherX},
}

// action alphabets
const (
	aNone = iota
	aSet
	aRemove
	aRemSet
	aSetRem
	aSet0
	aSetIgnore
)

var actName = map[int]string{aNone: "none", aSet: "set", aRemove: "remove", aRemSet: "remove+set", aSetRem: "set+remove", aSet0: "set0", aSetIgnore: "set/ignore"}

func zeroable(k *items.Kind) bool {
	if k.Bool || k.Append || k.Name == "cdi" {
		return false
	}
	switch k.Name {
	case "annotation", "env", "mount", "device", "args", "unified", "cpu.cpus", "cpu.mems", "blockio", "rdt", "cgroupspath":
		return false
	}
	return true
}

func actionsFor(k *items.Kind, adjust bool) []int {
	a := []int{aNone, aSet}
	if adjust {
		if k.Removable {
			if k.Name == "args" {
				a = append(a, aRemSet)
			} else {
				a = append(a, aRemove, aRemSet, aSetRem)
			}
		}
	} else {
		a = append(a, aSetIgnore)
	}
	if zeroable(k) {
		a = append(a, aSet0)
	}
	return a
}

func opsFor(it merge.Item, act, p int) []merge.Op {
	v := pval(p, 0)
	switch act {
	case aSet, aSetIgnore:
		return []merge.Op{{Item: it, Val: v}}
	case aSet0:
		return []merge.Op{{Item: it, Val: 0}}
	case aRemove:
		return []merge.Op{{Item: it, Remove: true}}
	case aRemSet:
		return []merge.Op{{Item: it, Remove: true}, {Item: it, Val: v}}
	case aSetRem:
		return []merge.Op{{Item: it, Val: v}, {Item: it, Remove: true}}
	}
	return nil
}

func respFor(ch chanSpec, ops []merge.Op, ignore bool) merge.Response {
	if len(ops) == 0 {
		return merge.Response{}
	}
	if ch.adjust {
		return merge.Response{Adjust: ops}
	}
	return merge.Response{Updates: []merge.Update{{Target: ch.target, Ignore: ignore, Sets: ops}}}
}

func item0(k *items.Kind) merge.Item {
	if k.Keyed {
		return merge.Item{Kind: k.Name, Key: k.Keys[0]}
	}
	return merge.Item{Kind: k.Name}
}

func item1(k *items.Kind) merge.Item { return merge.Item{Kind: k.Name, Key: k.Keys[1]} }

// origVariants returns the original containers / requests to try for a channel.
func origVariants(ch chanSpec, its []merge.Item, thorough bool) []struct {
	name string
	m    map[merge.Item]int
	l    map[string][]int
} {
	type ov = struct {
		name string
		m    map[merge.Item]int
		l    map[string][]int
	}
	out := []ov{{"empty", map[merge.Item]int{}, nil}}
	if ch.req == "stop" {
		return out
	}
	if ch.req == "create" || ch.name == "update.update.own" || ch.name == "update.update.other" {
		with := map[merge.Item]int{}
		wl := map[string][]int{}
		any := false
		for _, it := range its {
			k := items.K(it.Kind)
			if ch.req == "update" && !k.InUpdate {
				continue
			}
			switch {
			case k.Append:
				wl[k.Name] = []int{origVal}
				any = true
			case k.Name == "cdi":
			case k.Name == "rlimit":
				wl[k.Name] = []int{origVal}
				any = true
			default:
				with[it] = origVal
				any = true
			}
		}
		if any {
			out = append(out, ov{"item", with, wl})
		}
		fm, fl := fullOrig(ch.req == "update")
		out = append(out, ov{"full", fm, fl})
	}
	return out
}

func generate(f *rep.Flags, bounds map[string]any, emit func(*Case)) {
	th := f.Thorough()
	nSingle := 3
	nPair := 2
	if th {
		nSingle, nPair = 5, 3
	}
	want := func(fam string) bool { return f.Engine == "" || f.Engine == fam }
	count := map[string]int{}
	out := func(c *Case) { count[c.Family]++; emit(c) }

	// F1: one item, every action vector
	if want("single") {
		for ki := range items.Kinds {
			k := &items.Kinds[ki]
			for _, ch := range channels {
				if ch.adjust && !k.InAdjust || !ch.adjust && !k.InUpdate {
					continue
				}
				it := item0(k)
				acts := actionsFor(k, ch.adjust)
				if k.Append {
					acts = []int{aNone, aSet}
				}
				for n := 1; n <= nSingle; n++ {
					for _, ov := range origVariants(ch, []merge.Item{it}, th) {
						vec := make([]int, n)
						var rec func(i int)
						rec = func(i int) {
							if i == n {
								c := &Case{Family: "single", Chan: ch.name, Focus: []string{k.Name}, Prepop: ov.name,
									Req: merge.Request{Kind: ch.req, ID: own, Orig: ov.m, OrigList: ov.l}}
								for p, a := range vec {
									c.Resps = append(c.Resps, respFor(ch, opsFor(it, a, p), a == aSetIgnore))
								}
								out(c)
								return
							}
							for _, a := range acts {
								vec[i] = a
								rec(i + 1)
							}
						}
						rec(0)
					}
				}
			}
		}
	}

	// F1b: the command line with the lone marker (UpdateArgs with no arguments) among the actions: it
	// carries no command line and must change nothing - not the claims, not what later plugins are shown,
	// not the result.
	if want("argsmarker") {
		k := items.K("args")
		it := item0(k)
		for _, ch := range channels {
			if ch.name != "create.adjust" {
				continue
			}
			for n := 2; n <= nSingle+1; n++ {
				for _, ov := range origVariants(ch, []merge.Item{it}, th) {
					vec := make([]int, n)
					var rec func(i int)
					rec = func(i int) {
						if i == n {
							lone := false
							for _, a := range vec {
								lone = lone || a == aRemove
							}
							if !lone {
								return
							}
							c := &Case{Family: "argsmarker", Chan: ch.name, Focus: []string{k.Name}, Prepop: ov.name,
								Req: merge.Request{Kind: ch.req, ID: own, Orig: ov.m, OrigList: ov.l}}
							for p, a := range vec {
								c.Resps = append(c.Resps, respFor(ch, opsFor(it, a, p), false))
							}
							out(c)
							return
						}
						for _, a := range []int{aNone, aSet, aRemove, aRemSet} {
							vec[i] = a
							rec(i + 1)
						}
					}
					rec(0)
				}
			}
		}
	}

	// F2: two items (two kinds, or two keys of one kind); each plugin sets a subset, in both list orders
	if want("pair") {
		var list []merge.Item
		for ki := range items.Kinds {
			k := &items.Kinds[ki]
			list = append(list, item0(k))
		}
		type pr struct{ a, b merge.Item }
		var pairs []pr
		for i := range list {
			for j := i + 1; j < len(list); j++ {
				pairs = append(pairs, pr{list[i], list[j]})
			}
		}
		for ki := range items.Kinds {
			k := &items.Kinds[ki]
			if k.Keyed {
				pairs = append(pairs, pr{item0(k), item1(k)})
			}
		}
		for _, pp := range pairs {
			ka, kb := items.K(pp.a.Kind), items.K(pp.b.Kind)
			for _, ch := range channels {
				if ch.name == "stop.update.own" || ch.name == "stop.update.other" && !th {
					continue
				}
				if ch.adjust && !(ka.InAdjust && kb.InAdjust) || !ch.adjust && !(ka.InUpdate && kb.InUpdate) {
					continue
				}
				opts := [][]merge.Item{{}, {pp.a}, {pp.b}, {pp.a, pp.b}, {pp.b, pp.a}}
				for n := 2; n <= nPair; n++ {
					for _, ov := range origVariants(ch, []merge.Item{pp.a, pp.b}, th) {
						if ov.name == "item" && !th {
							continue
						}
						vec := make([]int, n)
						var rec func(i int)
						rec = func(i int) {
							if i == n {
								c := &Case{Family: "pair", Chan: ch.name, Focus: []string{pp.a.Kind, pp.b.Kind}, Prepop: ov.name,
									Req: merge.Request{Kind: ch.req, ID: own, Orig: ov.m, OrigList: ov.l}}
								for p, o := range vec {
									var ops []merge.Op
									for j, it := range opts[o] {
										ops = append(ops, merge.Op{Item: it, Val: pval(p, j)})
									}
									c.Resps = append(c.Resps, respFor(ch, ops, false))
								}
								out(c)
								return
							}
							for o := range opts {
								vec[i] = o
								rec(i + 1)
							}
						}
						rec(0)
					}
				}
			}
		}
	}

	// F2b: removal actions on a removable item combined with sets of a second item
	if want("rempair") {
		ch := channels[0]
		for _, rk := range []string{"annotation", "env", "mount", "device", "args"} {
			k1 := items.K(rk)
			a1 := actionsFor(k1, true)
			for ki := range items.Kinds {
				k2 := &items.Kinds[ki]
				if !k2.InAdjust || (!th && k2.GenIgnores) {
					continue
				}
				i1, i2 := item0(k1), item0(k2)
				if k2.Name == rk {
					if !k2.Keyed {
						continue
					}
					i2 = item1(k2)
				}
				for n := 2; n <= nPair; n++ {
					for _, ov := range origVariants(ch, []merge.Item{i1, i2}, th) {
						if ov.name == "empty" && !th {
							continue
						}
						v1, v2 := make([]int, n), make([]int, n)
						var rec func(i int)
						rec = func(i int) {
							if i == n {
								c := &Case{Family: "rempair", Chan: ch.name, Focus: []string{k1.Name, k2.Name}, Prepop: ov.name,
									Req: merge.Request{Kind: "create", ID: own, Orig: ov.m, OrigList: ov.l}}
								for p := 0; p < n; p++ {
									ops := opsFor(i1, v1[p], p)
									if v2[p] == 1 {
										ops = append(ops, merge.Op{Item: i2, Val: pval(p, 1)})
									}
									c.Resps = append(c.Resps, respFor(ch, ops, false))
								}
								out(c)
								return
							}
							for _, a := range a1 {
								if a == aSet0 {
									continue
								}
								for b := 0; b < 2; b++ {
									v1[i], v2[i] = a, b
									rec(i + 1)
								}
							}
						}
						rec(0)
					}
				}
			}
		}
	}

	// F1b: one item whose writers repeat a value that is already there: the value the original
	// container / request came with, or the value the first plugin set
	if want("sameval") {
		nSame := 3
		if th {
			nSame = 4
		}
		const (
			sNone = iota
			sSetOwn
			sSetOrig
			sSetP0
			sRemove
			sRemSetOrig
			sRemSetP0
			sSetOrigIgnore
		)
		for ki := range items.Kinds {
			k := &items.Kinds[ki]
			if k.Append || k.Name == "cdi" {
				continue
			}
			for _, ch := range channels {
				if ch.adjust && !k.InAdjust || !ch.adjust && !k.InUpdate {
					continue
				}
				it := item0(k)
				acts := []int{sNone, sSetOwn, sSetOrig, sSetP0}
				if ch.adjust && k.Removable && k.Name != "args" {
					acts = append(acts, sRemove, sRemSetOrig, sRemSetP0)
				}
				if !ch.adjust {
					acts = append(acts, sSetOrigIgnore)
				}
				for n := 2; n <= nSame; n++ {
					for _, ov := range origVariants(ch, []merge.Item{it}, th) {
						ovv, has := ov.m[it]
						if !has {
							continue // nothing to repeat
						}
						if n == 4 && ov.name == "full" {
							continue
						}
						vec := make([]int, n)
						var rec func(i int)
						rec = func(i int) {
							if i == n {
								c := &Case{Family: "sameval", Chan: ch.name, Focus: []string{k.Name}, Prepop: ov.name,
									Req: merge.Request{Kind: ch.req, ID: own, Orig: ov.m, OrigList: ov.l}}
								for p, a := range vec {
									var ops []merge.Op
									switch a {
									case sSetOwn:
										ops = []merge.Op{{Item: it, Val: pval(p, 0)}}
									case sSetOrig, sSetOrigIgnore:
										ops = []merge.Op{{Item: it, Val: ovv}}
									case sSetP0:
										ops = []merge.Op{{Item: it, Val: pval(0, 0)}}
									case sRemove:
										ops = []merge.Op{{Item: it, Remove: true}}
									case sRemSetOrig:
										ops = []merge.Op{{Item: it, Remove: true}, {Item: it, Val: ovv}}
									case sRemSetP0:
										ops = []merge.Op{{Item: it, Remove: true}, {Item: it, Val: pval(0, 0)}}
									}
									c.Resps = append(c.Resps, respFor(ch, ops, a == sSetOrigIgnore))
								}
								out(c)
								return
							}
							for _, a := range acts {
								vec[i] = a
								rec(i + 1)
							}
						}
						rec(0)
					}
				}
			}
		}
	}

	// F2d: many keys of one collection: the original carries 0..3 items of its own, the plugins add
	// 1..3 new keys each (list lengths cross the capacities 1, 2, 4, 8 of slices grown by append), the
	// last plugin only looks
	if want("manykeys") {
		ch := channels[0]
		keyOf := func(kind string, i int) string {
			switch kind {
			case "annotation":
				return fmt.Sprintf("kx%d", i)
			case "env":
				return fmt.Sprintf("EX%d", i)
			case "mount":
				return fmt.Sprintf("/mx%d", i)
			}
			return fmt.Sprintf("/dev/dx%d", i)
		}
		maxAdd := 3
		for _, rk := range []string{"annotation", "env", "mount", "device"} {
			for nOrig := 0; nOrig <= 3; nOrig++ {
				orig := map[merge.Item]int{}
				for i := 0; i < nOrig; i++ {
					orig[merge.Item{Kind: rk, Key: keyOf(rk, 100+i)}] = 5 + i
				}
				// adds[p] = number of new keys plugin p adds; 2-3 adding plugins and an observer
				var adds [][]int
				for a0 := 1; a0 <= maxAdd; a0++ {
					for a1 := 1; a1 <= maxAdd; a1++ {
						adds = append(adds, []int{a0, a1, 0})
						for a2 := 1; a2 <= 2; a2++ {
							if th || a0+a1+a2 <= 6 {
								adds = append(adds, []int{a0, a1, a2, 0})
							}
						}
					}
				}
				for _, ad := range adds {
					for _, withRemoval := range []bool{false, true} {
						if withRemoval && nOrig == 0 {
							continue
						}
						c := &Case{Family: "manykeys", Chan: ch.name, Focus: []string{rk, rk}, Prepop: fmt.Sprintf("orig%d", nOrig),
							Req: merge.Request{Kind: "create", ID: own, Orig: orig}}
						next := 0
						for p, n := range ad {
							var ops []merge.Op
							if withRemoval && p == 1 {
								// the second plugin also removes the first item of the original
								ops = append(ops, merge.Op{Item: merge.Item{Kind: rk, Key: keyOf(rk, 100)}, Remove: true})
							}
							for j := 0; j < n; j++ {
								ops = append(ops, merge.Op{Item: merge.Item{Kind: rk, Key: keyOf(rk, next)}, Val: pval(p, j)})
								next++
							}
							c.Resps = append(c.Resps, respFor(ch, ops, false))
						}
						out(c)
					}
				}
			}
		}
	}

	// F2c: two keys of one removable kind, every combination of {none, set, remove, remove+set}
	// per key and plugin, both list orders (positional handling of the collected lists)
	if want("twokey") {
		ch := channels[0]
		nTwo := 3
		if th {
			nTwo = 4
		}
		for _, rk := range []string{"annotation", "env", "mount", "device"} {
			k := items.K(rk)
			i0, i1 := item0(k), item1(k)
			keyActs := []int{aNone, aSet, aRemove, aRemSet}
			type popt struct {
				a0, a1 int
				swap   bool
			}
			var popts []popt
			for _, a0 := range keyActs {
				for _, a1 := range keyActs {
					popts = append(popts, popt{a0, a1, false})
					if a0 != aNone && a1 != aNone {
						popts = append(popts, popt{a0, a1, true})
					}
				}
			}
			for n := 2; n <= nTwo; n++ {
				for _, ov := range origVariants(ch, []merge.Item{i0, i1}, th) {
					if ov.name == "full" && !th {
						continue
					}
					if n == 4 && ov.name != "empty" {
						continue
					}
					vec := make([]int, n)
					var rec func(i int)
					rec = func(i int) {
						if i == n {
							c := &Case{Family: "twokey", Chan: ch.name, Focus: []string{rk, rk}, Prepop: ov.name,
								Req: merge.Request{Kind: "create", ID: own, Orig: ov.m, OrigList: ov.l}}
							for p, oi := range vec {
								o := popts[oi]
								a, b := opsFor(i0, o.a0, p), opsFor(i1, o.a1, p)
								for j := range b {
									if !b[j].Remove {
										b[j].Val = pval(p, 1)
									}
								}
								ops := append(append([]merge.Op{}, a...), b...)
								if o.swap {
									ops = append(append([]merge.Op{}, b...), a...)
								}
								c.Resps = append(c.Resps, respFor(ch, ops, false))
							}
							out(c)
							return
						}
						for oi := range popts {
							if n == 4 && popts[oi].swap {
								continue
							}
							vec[i] = oi
							rec(i + 1)
						}
					}
					rec(0)
				}
			}
		}
	}

	// F2d: responses carrying an adjustment AND updates of other containers at once
	if want("adjupd") {
		for ki := range items.Kinds {
			k := &items.Kinds[ki]
			if !k.InAdjust || k.Append {
				continue
			}
			it := item0(k)
			for n := 2; n <= 3; n++ {
				// per plugin: adjustment action on the item x update {none, other container, other container ignore-failure}
				acts := []int{aNone, aSet}
				if k.Removable && k.Name != "args" {
					acts = append(acts, aRemSet)
				}
				type po struct{ a, u int }
				var popts []po
				for _, a := range acts {
					for u := 0; u < 3; u++ {
						popts = append(popts, po{a, u})
					}
				}
				vec := make([]int, n)
				var rec func(i int)
				rec = func(i int) {
					if i == n {
						c := &Case{Family: "adjupd", Chan: "create.adjust+update", Focus: []string{k.Name, "updates"}, Prepop: "empty",
							Req: merge.Request{Kind: "create", ID: own, Orig: map[merge.Item]int{}}}
						for p, oi := range vec {
							o := popts[oi]
							r := merge.Response{Adjust: opsFor(it, o.a, p)}
							if o.u > 0 {
								// every plugin updates its own field of the other container: never a conflict there
								fld := []merge.Item{{Kind: "mem.limit"}, {Kind: "cpu.shares"}, {Kind: "cpu.quota"}}[p]
								r.Updates = []merge.Update{{Target: otherX, Ignore: o.u == 2, Sets: []merge.Op{{Item: fld, Val: pval(p, 2)}}}}
							}
							c.Resps = append(c.Resps, r)
						}
						out(c)
						return
					}
					for oi := range popts {
						vec[i] = oi
						rec(i + 1)
					}
				}
				rec(0)
			}
		}
	}

	// F3: update structure: several targets, several updates per plugin, ignore-failure flags
	// F4b: updates that set nothing, in the three ways such a message can be spelled, alone or next to
	// another plugin's update of the same / another target
	if want("emptyupd") {
		targets := []string{own, otherX}
		fld := merge.Item{Kind: "cpu.shares"}
		fmE, _ := fullOrig(true)
		type rkp struct {
			rk, prepop string
			orig       map[merge.Item]int
		}
		// an update request is also tried with every resource field populated by the runtime: an update that
		// sets nothing must leave what the runtime submitted in place for the later plugins and in the result
		for _, rq := range []rkp{{"create", "empty", map[merge.Item]int{}}, {"update", "empty", map[merge.Item]int{}}, {"update", "full", fmE}, {"stop", "empty", map[merge.Item]int{}}} {
			rk := rq.rk
			for _, t := range targets {
				for shape := 0; shape < 3; shape++ {
					for _, ig := range []bool{false, true} {
						empty := merge.Update{Target: t, Ignore: ig, Shape: shape}
						// who else: nobody; an earlier / later plugin setting a field of the same or the other target;
						// the same plugin with a second, non-empty update
						type other struct {
							where  string // "", "before", "after", "same-plugin-before", "same-plugin-after"
							target string
						}
						others := []other{{"", ""}}
						for _, w := range []string{"before", "after", "same-plugin-before", "same-plugin-after"} {
							for _, t2 := range targets {
								others = append(others, other{w, t2})
							}
						}
						for _, o := range others {
							c := &Case{Family: "emptyupd", Chan: rk + ".updates", Focus: []string{"updates"}, Prepop: rq.prepop,
								Req: merge.Request{Kind: rk, ID: own, Orig: rq.orig}}
							full := func(p int) merge.Update {
								return merge.Update{Target: o.target, Sets: []merge.Op{{Item: fld, Val: pval(p, 0)}}}
							}
							switch o.where {
							case "":
								c.Resps = []merge.Response{{Updates: []merge.Update{empty}}}
							case "before":
								c.Resps = []merge.Response{{Updates: []merge.Update{full(0)}}, {Updates: []merge.Update{empty}}}
							case "after":
								c.Resps = []merge.Response{{Updates: []merge.Update{empty}}, {Updates: []merge.Update{full(1)}}}
							case "same-plugin-before":
								c.Resps = []merge.Response{{Updates: []merge.Update{full(0), empty}}}
							case "same-plugin-after":
								c.Resps = []merge.Response{{Updates: []merge.Update{empty, full(0)}}}
							}
							out(c)
						}
					}
				}
			}
		}
	}

	// F4c: three plugins, one update each, every non-empty subset of three fields of ONE target
	// (claimed in different positions of the implementation's field order), every ignore-failure placement
	// F4d (`updkeyed`): the same shape over two keys of the unified map plus two fields claimed
	// after it (rdt class, pids): an ignored update that conflicts late must leave no key behind
	// in a map the target's entry already holds
	for _, fam := range []struct {
		name string
		f3   []merge.Item
	}{{"updates3", []merge.Item{{Kind: "mem.limit"}, {Kind: "cpu.shares"}, {Kind: "pids"}}},
		{"updkeyed", []merge.Item{{Kind: "unified", Key: "ua"}, {Kind: "unified", Key: "ub"}, {Kind: "rdt"}, {Kind: "pids"}}}} {
		if !want(fam.name) {
			continue
		}
		f3 := fam.f3
		type uo struct {
			mask   int
			ignore bool
		}
		var opts []uo
		for m := 1; m < 1<<len(f3); m++ {
			opts = append(opts, uo{m, false}, uo{m, true})
		}
		fm3, _ := fullOrig(true)
		for _, rq := range []struct {
			kind, prepop, target string
			orig                 map[merge.Item]int
		}{{"update", "empty", own, map[merge.Item]int{}}, {"update", "full", own, fm3}, {"update", "empty", otherX, map[merge.Item]int{}}, {"create", "empty", otherX, map[merge.Item]int{}}} {
			for _, a := range opts {
				for _, b := range opts {
					for _, cc := range opts {
						c := &Case{Family: fam.name, Chan: rq.kind + ".updates", Focus: []string{"updates"}, Prepop: rq.prepop,
							Req: merge.Request{Kind: rq.kind, ID: own, Orig: rq.orig}}
						for p, o := range []uo{a, b, cc} {
							mu := merge.Update{Target: rq.target, Ignore: o.ignore}
							for fi, it := range f3 {
								if o.mask&(1<<fi) != 0 {
									mu.Sets = append(mu.Sets, merge.Op{Item: it, Val: pval(p, fi)})
								}
							}
							c.Resps = append(c.Resps, merge.Response{Updates: []merge.Update{mu}})
						}
						out(c)
					}
				}
			}
		}
	}

	if want("updates") {
		fields := []merge.Item{{Kind: "mem.limit"}, {Kind: "cpu.shares"}}
		if th {
			fields = append(fields, merge.Item{Kind: "hugepage", Key: "2MB"})
		}
		targets := []string{own, otherX, otherY}
		type uopt struct {
			target string
			ignore bool
			mask   int
		}
		var single []uopt
		for _, t := range targets {
			for m := 1; m < 1<<len(fields); m++ {
				for _, ig := range []bool{false, true} {
					single = append(single, uopt{t, ig, m})
				}
			}
		}
		// per-plugin options: up to two updates
		var popts [][]uopt
		popts = append(popts, nil)
		for _, a := range single {
			popts = append(popts, []uopt{a})
		}
		one := len(popts)
		for _, a := range single {
			for _, b := range single {
				popts = append(popts, []uopt{a, b})
			}
		}
		build := func(p int, us []uopt) merge.Response {
			var r merge.Response
			for j, u := range us {
				mu := merge.Update{Target: u.target, Ignore: u.ignore}
				for fi, it := range fields {
					if u.mask&(1<<fi) != 0 {
						mu.Sets = append(mu.Sets, merge.Op{Item: it, Val: pval(p, j)})
					}
				}
				r.Updates = append(r.Updates, mu)
			}
			return r
		}
		fm, _ := fullOrig(true)
		reqs := []struct {
			kind, prepop string
			orig         map[merge.Item]int
		}{{"create", "empty", map[merge.Item]int{}}, {"update", "empty", map[merge.Item]int{}}, {"update", "full", fm}, {"stop", "empty", map[merge.Item]int{}}}
		emitU := func(lim []int) {
			n := len(lim)
			for _, rq := range reqs {
				vec := make([]int, n)
				var rec func(i int)
				rec = func(i int) {
					if i == n {
						c := &Case{Family: "updates", Chan: rq.kind + ".updates", Focus: []string{"updates"}, Prepop: rq.prepop,
							Req: merge.Request{Kind: rq.kind, ID: own, Orig: rq.orig}}
						for p, o := range vec {
							c.Resps = append(c.Resps, build(p, popts[o]))
						}
						out(c)
						return
					}
					for o := 0; o < lim[i]; o++ {
						vec[i] = o
						rec(i + 1)
					}
				}
				rec(0)
			}
		}
		all := len(popts)
		if th {
			emitU([]int{all, all})
			emitU([]int{all, one, one})
			emitU([]int{one, all, one})
			emitU([]int{one, one, all})
		} else {
			emitU([]int{all, all})
			emitU([]int{one, one, one})
			// three plugins, the middle one with two updates, on two targets only
			var s2 []uopt
			for _, u := range single {
				if u.target != otherY {
					s2 = append(s2, u)
				}
			}
			var p2 [][]uopt
			p2 = append(p2, nil)
			for _, a := range s2 {
				p2 = append(p2, []uopt{a})
			}
			one2 := len(p2)
			for _, a := range s2 {
				for _, b := range s2 {
					p2 = append(p2, []uopt{a, b})
				}
			}
			saved := popts
			popts = p2
			emitU([]int{one2, len(p2), one2})
			popts = saved
		}
		bounds["updates_single_options"] = len(single)
	}

	// F4: wide responses: every kind at once, split among the plugins
	if want("wide") {
		ch := channels[0]
		for n := 1; n <= 3; n++ {
			for off := 0; off < n; off++ {
				for _, full := range []bool{false, true} {
					for _, second := range []bool{false, true} {
						om, ol := map[merge.Item]int{}, map[string][]int(nil)
						pp := "empty"
						if full {
							om, ol = fullOrig(false)
							pp = "full"
						}
						c := &Case{Family: "wide", Chan: ch.name, Focus: []string{"all"}, Prepop: pp,
							Req: merge.Request{Kind: "create", ID: own, Orig: om, OrigList: ol}}
						c.Resps = make([]merge.Response, n)
						for ki := range items.Kinds {
							k := &items.Kinds[ki]
							p := (ki + off) % n
							it := item0(k)
							if second && k.Keyed {
								it = item1(k)
							}
							if k.Removable && full && ki%2 == 0 {
								if k.Name == "args" {
									c.Resps[p].Adjust = append(c.Resps[p].Adjust, merge.Op{Item: it, Remove: true}, merge.Op{Item: it, Val: pval(p, 0)})
								} else {
									c.Resps[p].Adjust = append(c.Resps[p].Adjust, merge.Op{Item: it, Remove: true})
								}
								continue
							}
							c.Resps[p].Adjust = append(c.Resps[p].Adjust, merge.Op{Item: it, Val: pval(p, 0)})
						}
						out(c)
					}
				}
			}
		}
	}
	for k, v := range count {
		bounds["cases_"+k] = v
	}
	bounds["max_plugins_single"] = nSingle
	bounds["max_plugins_pair"] = nPair
	bounds["kinds"] = len(items.Kinds)
	bounds["channels"] = len(channels)
	_ = fmt.Sprint
}
