package main

import (
	"context"
	"encoding/json"
	"errors"
	"fmt"
	"net"
	"os"
	"sort"
	"strings"
	"sync"
	"sync/atomic"
	"syscall"
	"time"

	"github.com/containerd/nri/pkg/adaptation"
	"github.com/containerd/nri/pkg/api"
	"github.com/containerd/nri/pkg/zzverif/vsched"

	"nriverif/lib/full"
	"nriverif/lib/rep"
)

// C08: semi-controlled schedule exploration of plugin registration against
// concurrent container creations under plugin-sync blocks.
//
// Controlled threads: the real accept loop (T-go), runtime goroutines, main.
// Environment (free-running, only ever reacting to a controlled thread's
// synchronous call): real stub plugins on socket pairs, ttrpc goroutines.

type qListener struct {
	queue   []net.Conn
	closed  bool
	waiters int
}

func (l *qListener) Accept() (net.Conn, error) {
	l.waiters++
	vsched.Block("accept", l, func() bool { return len(l.queue) > 0 || l.closed })
	l.waiters--
	if len(l.queue) > 0 {
		c := l.queue[0]
		l.queue = l.queue[1:]
		return c, nil
	}
	return nil, errors.New("listener closed")
}
func (l *qListener) Close() error   { l.closed = true; return nil }
func (l *qListener) Addr() net.Addr { return &net.UnixAddr{Name: "verif", Net: "unix"} }

func socketpair() (net.Conn, net.Conn, error) {
	fds, err := syscall.Socketpair(syscall.AF_UNIX, syscall.SOCK_STREAM|syscall.SOCK_CLOEXEC, 0)
	if err != nil {
		return nil, nil, err
	}
	mk := func(fd int) (net.Conn, error) {
		f := os.NewFile(uintptr(fd), "sp")
		defer f.Close()
		return net.FileConn(f)
	}
	a, err := mk(fds[0])
	if err != nil {
		return nil, nil, err
	}
	b, err := mk(fds[1])
	if err != nil {
		return nil, nil, err
	}
	return a, b, nil
}

type rop struct {
	Kind string // "create" (inside a sync block, with bookkeeping) | "event" (no block)
	ID   string
}

type regScen struct {
	Name    string
	Plugins []string // "good" | "syncfail" | "badindex"
	Threads [][]rop
	Bound   [2]int
}

var regScens = []regScen{
	{Name: "one-plugin-two-creators", Plugins: []string{"good"}, Threads: [][]rop{{{"create", "c1"}}, {{"create", "c2"}}}, Bound: [2]int{3, 6}},
	{Name: "two-plugins-one-creator", Plugins: []string{"good", "good"}, Threads: [][]rop{{{"create", "c1"}}}, Bound: [2]int{3, 6}},
	{Name: "one-plugin-creator-and-events", Plugins: []string{"good"}, Threads: [][]rop{{{"create", "c1"}, {"create", "c2"}}, {{"event", "e1"}}}, Bound: [2]int{3, 6}},
	{Name: "two-plugins-two-creators", Plugins: []string{"good", "good"}, Threads: [][]rop{{{"create", "c1"}}, {{"create", "c2"}}}, Bound: [2]int{2, 5}},
	{Name: "failed-sync-then-good", Plugins: []string{"syncfail", "good"}, Threads: [][]rop{{{"create", "c1"}}}, Bound: [2]int{3, 6}},
	{Name: "repeated-unblock-two-creators", Plugins: []string{"good"}, Threads: [][]rop{{{"create-unblock-twice", "c1"}}, {{"create", "c2"}}}, Bound: [2]int{3, 5}},
	{Name: "bad-handshake-then-good", Plugins: []string{"badindex", "good"}, Threads: [][]rop{{{"create", "c1"}}}, Bound: [2]int{3, 6}},
}

type regWorld struct {
	sc      *regScen
	rt      *adaptation.Adaptation
	plugins []*full.Plugin
	conns   []net.Conn

	storeMu sync.Mutex
	store   []*api.Container
	blocks  int32 // sync blocks currently held by runtime threads
	viol    []string
	vmu     sync.Mutex
	snaps   map[string][]string // plugin name -> snapshot ids (from the runtime's callback)
	done    int
	mainOK  bool
}

func (w *regWorld) addViol(f string, a ...any) {
	w.vmu.Lock()
	w.viol = append(w.viol, fmt.Sprintf(f, a...))
	w.vmu.Unlock()
}

func (w *regWorld) syncFn(ctx context.Context, cb adaptation.SyncCB) error {
	if atomic.LoadInt32(&w.blocks) > 0 {
		w.addViol("a plugin is being synchronized while %d sync block(s) are held", atomic.LoadInt32(&w.blocks))
	}
	w.storeMu.Lock()
	ctrs := append([]*api.Container(nil), w.store...)
	w.storeMu.Unlock()
	vsched.Yield("syncfn-between-snapshot-and-callback")
	_, err := cb(ctx, nil, ctrs)
	return err
}

func (w *regWorld) body(s *vsched.Sched) {
	sc := w.sc
	s.Spawn("main", func() {
		r, err := adaptation.New("verif", "0", w.syncFn,
			func(context.Context, []*api.ContainerUpdate) ([]*api.ContainerUpdate, error) { return nil, nil },
			adaptation.WithDisabledExternalConnections(), adaptation.WithPluginPath("/nonexistent"))
		if err != nil {
			panic(err)
		}
		w.rt = r
		l := &qListener{}
		adaptation.VerifAcceptLoop(r, l) // the accept loop becomes a controlled thread
		for i, kind := range sc.Plugins {
			a, b, err := socketpair()
			if err != nil {
				panic(err)
			}
			w.conns = append(w.conns, a, b)
			idx := fmt.Sprintf("%02d", 10*(i+1))
			if kind == "badindex" {
				idx = "7"
			}
			// the name of each plugin ends in "-" + the name of every later one ("x-x-p", "x-p", "p")
			pl := full.NewPlugin(idx, strings.Repeat("x-", len(sc.Plugins)-1-i)+"p")
			if kind == "syncfail" {
				pl.SyncFn = func([]*api.PodSandbox, []*api.Container) ([]*api.ContainerUpdate, error) {
					return nil, errors.New("plugin refuses the state")
				}
			}
			plc := pl
			prev := pl.SyncFn
			pl.SyncFn = func(p []*api.PodSandbox, c []*api.Container) ([]*api.ContainerUpdate, error) {
				if n := atomic.LoadInt32(&w.blocks); n > 0 {
					w.addViol("plugin %s received its Synchronize request while %d sync block(s) are held", plc.Name, n)
				}
				if prev != nil {
					return prev(p, c)
				}
				return nil, nil
			}
			pl.CreateFn = func(_ *api.PodSandbox, _ *api.Container) (*api.ContainerAdjustment, []*api.ContainerUpdate, error) {
				if plc.SyncCount() == 0 {
					w.addViol("plugin %s received an event before it was synchronized", plc.Name)
				}
				return nil, nil, nil
			}
			w.plugins = append(w.plugins, pl)
			go pl.StartOn(b) // the plugin process: part of the free-running environment
			l.queue = append(l.queue, a)
		}
		for t, ops := range sc.Threads {
			ops := ops
			vsched.Go(fmt.Sprintf("T%d", t), func() {
				defer func() { w.done++ }()
				for _, o := range ops {
					switch o.Kind {
					case "create", "create-unblock-twice":
						b := r.BlockPluginSync()
						if o.Kind == "create-unblock-twice" {
							// Unblock is documented as safe to call more than once: an explicit release
							// plus a deferred safety net
							defer func() {
								vsched.Yield("before-repeated-unblock")
								b.Unblock()
							}()
						}
						atomic.AddInt32(&w.blocks, 1)
						c := &api.Container{Id: o.ID, PodSandboxId: "pod0", Name: o.ID}
						w.storeMu.Lock()
						w.store = append(w.store, c)
						w.storeMu.Unlock()
						vsched.Yield("between-bookkeeping-and-create")
						if _, err := r.CreateContainer(context.Background(), &api.CreateContainerRequest{Pod: &api.PodSandbox{Id: "pod0"}, Container: c}); err != nil {
							w.addViol("CreateContainer(%s) failed: %v", o.ID, err)
						}
						atomic.AddInt32(&w.blocks, -1)
						b.Unblock()
					case "event":
						r.StartContainer(context.Background(), &api.StateChangeEvent{Pod: &api.PodSandbox{Id: "pod0"}, Container: &api.Container{Id: o.ID}})
					}
				}
			})
		}
		// wait until the runtime threads are done and the accept loop has nothing left to do
		vsched.Block("join", nil, func() bool { return w.done == len(sc.Threads) && l.waiters > 0 && len(l.queue) == 0 })
		l.Close()
		w.mainOK = true
	})
}

func (w *regWorld) cleanup() {
	for _, p := range w.plugins {
		if p.Stub != nil {
			done := make(chan struct{})
			go func(p *full.Plugin) { p.Stub.Stop(); close(done) }(p)
			select {
			case <-done:
			case <-time.After(3 * time.Second):
			}
		}
	}
	if w.rt != nil {
		w.rt.Stop()
	}
	for _, c := range w.conns {
		c.Close()
	}
}

func (w *regWorld) verdict(ex *vsched.Exec) (viol []string, outcome string) {
	defer w.cleanup()
	sc := w.sc
	if ex.Status != "ok" {
		viol = append(viol, fmt.Sprintf("%s: blocked threads: %s %s", ex.Status, strings.Join(ex.Blocked, ", "), firstLine(ex.Detail)))
		return viol, ex.Status
	}
	var active []string
	if w.rt != nil {
		active = adaptation.VerifActiveNames(w.rt)
	}
	var created []string
	for _, ops := range sc.Threads {
		for _, o := range ops {
			if strings.HasPrefix(o.Kind, "create") {
				created = append(created, o.ID)
			}
		}
	}
	var ob strings.Builder
	for i, kind := range sc.Plugins {
		pl := w.plugins[i]
		name := pl.Idx + "-" + pl.Name
		isActive := false
		for _, n := range active {
			if n == name {
				isActive = true
			}
		}
		if kind != "good" {
			if isActive {
				viol = append(viol, fmt.Sprintf("plugin %s (%s) was activated", name, kind))
			}
			for _, c := range pl.Calls() {
				if c.Method == "CreateContainer" || c.Method == "StartContainer" {
					viol = append(viol, fmt.Sprintf("plugin %s (%s) received %s", name, kind, c.Method))
				}
			}
			continue
		}
		if !isActive {
			viol = append(viol, fmt.Sprintf("plugin %s completed its handshake but was not activated although every sync block was released", name))
			continue
		}
		if pl.SyncCount() != 1 {
			viol = append(viol, fmt.Sprintf("plugin %s was synchronized %d times", name, pl.SyncCount()))
			continue
		}
		snap := map[string]int{}
		_, snapIDs := pl.SyncIDs(0)
		for _, id := range snapIDs {
			snap[id]++
		}
		got := map[string]int{}
		for _, c := range pl.Calls() {
			if c.Method == "CreateContainer" {
				got[c.Ctr]++
			}
		}
		var parts []string
		for _, id := range created {
			n := snap[id] + got[id]
			if n != 1 {
				viol = append(viol, fmt.Sprintf("plugin %s learned of container %s %d times (in snapshot: %d, creation requests: %d)", name, id, n, snap[id], got[id]))
			}
			if snap[id] > 0 {
				parts = append(parts, id+":snapshot")
			} else {
				parts = append(parts, id+":create")
			}
		}
		sort.Strings(parts)
		fmt.Fprintf(&ob, "%s[%s] ", pl.Name, strings.Join(parts, ","))
	}
	w.vmu.Lock()
	viol = append(viol, w.viol...)
	w.vmu.Unlock()
	return viol, ob.String()
}

func firstLine(s string) string {
	if i := strings.Index(s, "\n"); i > 0 {
		return s[:i]
	}
	return s
}

func (sc *regScen) scenario() *vsched.Scenario {
	return &vsched.Scenario{
		Name: sc.Name,
		Cfg:  vsched.Config{Mode: vsched.Preemption, Foreign: true, Grace: 300 * time.Millisecond, MaxSteps: 2000},
		New: func() (vsched.Body, func(ex *vsched.Exec) ([]string, string)) {
			w := &regWorld{sc: sc}
			return w.body, w.verdict
		},
	}
}

func regSig(prop, name string, msgs []string) string {
	kind := "invariant"
	for _, m := range msgs {
		switch {
		case strings.HasPrefix(m, "deadlock") || strings.HasPrefix(m, "livelock"):
			kind = "deadlock"
		case strings.Contains(m, "learned of container"):
			kind = "exactly-once"
		case strings.Contains(m, "while") && strings.Contains(m, "sync block"):
			kind = "sync-during-block"
		case strings.Contains(m, "not activated"):
			kind = "registration-stuck"
		case strings.Contains(m, "before it was synchronized"):
			kind = "event-before-sync"
		case strings.HasPrefix(m, "panic"):
			kind = "panic"
		}
	}
	return fmt.Sprintf("%s|reg-sched|%s|%s", prop, name, kind)
}

func engineRegSched(f *rep.Flags, res *rep.Result) {
	// handshakes are real round trips: under heavy machine load they can take long; no timeout of the
	// code under test may fire in these scenarios (it would change the accept thread's path)
	vsched.WatchdogLimit = 150 * time.Second
	adaptation.SetPluginRegistrationTimeout(90 * time.Second)
	adaptation.SetPluginRequestTimeout(90 * time.Second)
	tier := 0
	if f.Thorough() {
		tier = 1
	}
	res.Rule = "every interleaving, within the preemption bound, of the real accept loop (registration, snapshot, activation) with runtime goroutines creating containers inside sync blocks; scheduling points: every operation on the sync lock and the adaptation lock, the runtime's store, Accept; real stub plugins on socket pairs form the free-running environment (each handshake round trip is one synchronous step of the accept thread); distinct = distinct splits of containers between snapshot and creation events"
	res.Assumptions = append(res.Assumptions, "semi-controlled: ttrpc and stub goroutines are outside the scheduler and only react to the controlled thread that calls them; deadlock is declared after a 300 ms grace period")
	deadline := time.Now().Add(6 * time.Minute)
	if f.Thorough() {
		deadline = time.Now().Add(40 * time.Minute)
	}
	bounds := map[string]int{}
	for i := range regScens {
		sc := &regScens[i]
		ex := &vsched.Explorer{Sc: sc.scenario(), Bound: sc.Bound[tier], Shard: f.Shard, NShards: f.NShards, Deadline: deadline}
		if err := ex.Run(); err != nil {
			rep.Fatal(f, "%v", err)
		}
		bounds[sc.Name] = sc.Bound[tier]
		res.Evaluations += int64(ex.Execs)
		res.States += int64(ex.PointsSeen)
		res.Transitions += int64(ex.Steps)
		res.Distinct += int64(len(ex.Outcomes))
		if ex.Capped {
			res.Exhaustive = false
			res.Notes = append(res.Notes, fmt.Sprintf("scenario %s: time cap reached after %d executions in this shard", sc.Name, ex.Execs))
		}
		for o, n := range ex.Outcomes {
			if res.Outcomes == nil {
				res.Outcomes = map[string]int{}
			}
			res.Outcomes[sc.Name+"|"+o] += n
		}
		for _, s := range ex.Samples {
			res.Sample(map[string]any{"scenario": sc.Name, "choices": s})
		}
		for _, v := range ex.Violations {
			res.Add(regSig(f.Prop, sc.Name, v.Messages), strings.Join(v.Messages, "\n  ")+"\n  trace: "+strings.Join(v.Trace, " "),
				map[string]any{"scenario": sc.Name, "choices": v.Choices})
		}
	}
	res.Bounds["preemption_bound_per_scenario"] = bounds
}

func replayRegSched(f *rep.Flags) int {
	b, err := os.ReadFile(f.Replay)
	if err != nil {
		rep.Fatal(f, "%v", err)
	}
	var w struct {
		Property string `json:"property"`
		Replay   struct {
			Scenario string `json:"scenario"`
			Choices  []int  `json:"choices"`
		} `json:"replay"`
	}
	if err := json.Unmarshal(b, &w); err != nil {
		rep.Fatal(f, "%v", err)
	}
	adaptation.SetPluginRegistrationTimeout(90 * time.Second)
	adaptation.SetPluginRequestTimeout(90 * time.Second)
	for i := range regScens {
		if regScens[i].Name == w.Replay.Scenario {
			ex, v, o := regScens[i].scenario().Replay(w.Replay.Choices)
			fmt.Printf("scenario %s status=%s steps=%d outcome=%s\n", w.Replay.Scenario, ex.Status, ex.Steps, o)
			for _, m := range v {
				fmt.Println("  ", m)
			}
			if len(v) > 0 {
				fmt.Printf("VIOLATION property=%s replay=%s\n", w.Property, f.Replay)
				return 1
			}
			fmt.Println("no violation")
			return 0
		}
	}
	rep.Fatal(f, "unknown scenario")
	return 2
}
