// Harness "reg": plugin registration.
//
// engines:
//
//	sched   C08: semi-controlled schedule exploration of registration vs. concurrent creations
//	names, masks, stalls, socket   C17 (see c17.go)
package main

import (
	"os"

	"nriverif/lib/rep"
)

func main() {
	f := rep.ParseFlags()
	res := &rep.Result{Property: f.Prop, Engine: "reg/" + f.Engine, Exhaustive: true, Bounds: map[string]any{}}
	if f.Replay != "" {
		if f.Engine == "sched" {
			os.Exit(replayRegSched(f))
		}
		if f.Engine == "hist" {
			os.Exit(replayRegHist(f))
		}
		if f.Engine == "hold" {
			os.Exit(replayHold(f))
		}
		os.Exit(replayC17(f))
	}
	switch f.Engine {
	case "sched":
		engineRegSched(f, res)
	case "race":
		engineRegRace(f, res)
	case "hist":
		engineRegHist(f, res)
	case "hold":
		engineHold(f, res)
	default:
		if !engineC17(f, res) {
			rep.Fatal(f, "unknown engine %q", f.Engine)
		}
	}
	res.Write(f)
}
