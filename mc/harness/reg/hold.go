package main

import (
	"context"
	"encoding/json"
	"fmt"
	"io"
	"os"
	"strings"
	"sync"
	"time"

	"github.com/containerd/nri/pkg/adaptation"
	"github.com/containerd/nri/pkg/api"
	"github.com/sirupsen/logrus"

	"nriverif/lib/full"
	"nriverif/lib/rep"
)

// Engine "hold" (C08): a sync block that is held for a long time - shorter
// than, about as long as, and several times longer than the plugin request
// and registration timeouts - while 1-2 plugins register.  The pending
// registrations wait (no plugin is synchronised or activated while the block
// is held) and complete once the block is released: waiting behind a block
// never counts against a registration.  Each plugin then knows every container
// exactly once.
type holdCase struct {
	Plugins int     `json:"plugins"`
	Factor  float64 `json:"hold_factor"` // hold time as a multiple of the timeouts
	// Leaves: the first pending plugin gives up (drops its connection) while the block is still held
	Leaves bool `json:"first_plugin_leaves,omitempty"`
}

func runHold(prop string, c holdCase, to time.Duration) (viol []string, sig string) {
	add := func(kind, f string, a ...any) {
		viol = append(viol, fmt.Sprintf(f, a...))
		if sig == "" {
			sig = prop + "|hold|" + kind
		}
	}
	what := fmt.Sprintf("%d plugin(s), block held for %.1f x the %v timeouts", c.Plugins, c.Factor, to)
	if c.Leaves {
		what += ", the first plugin drops its connection while pending"
	}
	adaptation.SetPluginRegistrationTimeout(to)
	adaptation.SetPluginRequestTimeout(to)
	rt, err := full.NewRuntime()
	if err != nil {
		return []string{"machinery: " + err.Error()}, "machinery"
	}
	defer rt.Close()
	if err := rt.Start(); err != nil {
		return []string{"machinery: " + err.Error()}, "machinery"
	}
	blk := rt.R.BlockPluginSync()
	released := false
	var mu sync.Mutex
	var early []string
	var pls []*full.Plugin
	for i := 0; i < c.Plugins; i++ {
		pl := full.NewPlugin(fmt.Sprintf("%02d", 10*(i+1)), fmt.Sprintf("h%d", i))
		name := pl.Idx + "-" + pl.Name
		pl.SyncFn = func([]*api.PodSandbox, []*api.Container) ([]*api.ContainerUpdate, error) {
			mu.Lock()
			if !released {
				early = append(early, name)
			}
			mu.Unlock()
			return nil, nil
		}
		pls = append(pls, pl)
		go pl.Start(rt, nil) // returns once configured; synchronisation has to wait for the block
	}
	defer func() {
		for _, p := range pls {
			if p.Stub != nil {
				p.Stub.Stop()
			}
		}
	}()
	time.Sleep(time.Duration(float64(to) * c.Factor))
	if c.Leaves {
		// past Configure by now (the handshake takes milliseconds): pending behind the block
		if pls[0].Stub != nil {
			pls[0].Stub.Stop()
		} else if pls[0].Conn != nil {
			pls[0].Conn.Close()
		}
		time.Sleep(30 * time.Millisecond)
	}
	// a container created inside the block
	ctr := &api.Container{Id: "c-in-block", PodSandboxId: "pod0", Name: "c"}
	rt.AddContainer(ctr)
	if _, err := rt.R.CreateContainer(context.Background(), &api.CreateContainerRequest{Pod: &api.PodSandbox{Id: "pod0"}, Container: ctr}); err != nil {
		add("create-failed", "%s: CreateContainer inside the block failed: %v", what, err)
	}
	mu.Lock()
	released = true
	mu.Unlock()
	blk.Unblock()
	for i, pl := range pls {
		if c.Leaves && i == 0 {
			continue
		}
		if !pl.WaitActive(rt, 4*to+8*time.Second) {
			add("registration-lost", "%s: plugin %s-%s, whose registration was pending while the block was held, did not become active after the block was released", what, pl.Idx, pl.Name)
			continue
		}
		if pl.SyncCount() != 1 {
			add("sync-count", "%s: plugin %s-%s was synchronised %d times", what, pl.Idx, pl.Name, pl.SyncCount())
			continue
		}
		_, cs := pl.SyncIDs(0)
		inSnap, got := 0, 0
		for _, id := range cs {
			if id == "c-in-block" {
				inSnap++
			}
		}
		for _, cl := range pl.Calls() {
			if cl.Method == "CreateContainer" && cl.Ctr == "c-in-block" {
				got++
			}
		}
		if inSnap+got != 1 {
			add("exactly-once", "%s: plugin %s-%s learned of the container %d times (snapshot %d, creation requests %d)", what, pl.Idx, pl.Name, inSnap+got, inSnap, got)
		}
	}
	if c.Leaves {
		// the departed registration must not leave the exclusive section taken: a new block is granted
		// and a plugin arriving now completes its registration
		got := make(chan struct{})
		go func() { b := rt.R.BlockPluginSync(); b.Unblock(); close(got) }()
		select {
		case <-got:
		case <-time.After(4*to + 8*time.Second):
			add("block-hangs", "%s: a new sync block was not granted after the earlier block was released", what)
			return
		}
		late := full.NewPlugin("90", "late")
		pls = append(pls, late)
		go late.Start(rt, nil)
		if !late.WaitActive(rt, 4*to+8*time.Second) {
			add("registration-lost", "%s: a plugin registering afterwards did not become active", what)
		}
	}
	mu.Lock()
	if len(early) > 0 {
		add("sync-during-block", "%s: %v synchronised while the block was held", what, early)
	}
	mu.Unlock()
	return
}

func engineHold(f *rep.Flags, res *rep.Result) {
	logrus.SetOutput(io.Discard)
	const to = 300 * time.Millisecond
	res.Rule = "a sync block held for {0.3, 1.2, 3} x the registration/request timeouts (300 ms) while 1-2 plugins register: nothing is synchronised while it is held, every pending registration completes after the release and knows the container created inside the block exactly once"
	res.Assumptions = append(res.Assumptions, "free-running; a failing case is repeated with timeouts x2 and x4 and believed only if it fails every time")
	var cases []holdCase
	for _, n := range []int{1, 2} {
		for _, fct := range []float64{0.3, 1.2, 3} {
			cases = append(cases, holdCase{Plugins: n, Factor: fct})
		}
		cases = append(cases, holdCase{Plugins: n, Factor: 0.5, Leaves: true})
	}
	for i, c := range cases {
		if i%f.NShards != f.Shard {
			continue
		}
		v, sig := runHold(f.Prop, c, to)
		for _, t2 := range []time.Duration{2 * to, 4 * to} {
			if len(v) == 0 {
				break
			}
			time.Sleep(200 * time.Millisecond)
			v2, sig2 := runHold(f.Prop, c, t2)
			if len(v2) == 0 {
				res.Notes = append(res.Notes, fmt.Sprintf("not reproduced with longer timeouts: %+v: %s", c, v[0]))
			}
			v, sig = v2, sig2
		}
		res.Evaluations++
		res.States += 4
		res.Transitions += 4
		if len(v) == 0 {
			continue
		}
		if sig == "machinery" {
			res.Exhaustive = false
			res.Notes = append(res.Notes, "case skipped: "+v[0])
			continue
		}
		res.Add(sig, strings.Join(v, "\n  "), map[string]any{"engine": "hold", "hold": c})
	}
	res.Distinct = res.Evaluations
	res.Bounds["cases"] = len(cases)
}

func replayHold(f *rep.Flags) int {
	logrus.SetOutput(io.Discard)
	b, err := os.ReadFile(f.Replay)
	if err != nil {
		rep.Fatal(f, "%v", err)
	}
	var w struct {
		Property string `json:"property"`
		Replay   struct {
			Hold holdCase `json:"hold"`
		} `json:"replay"`
	}
	if err := json.Unmarshal(b, &w); err != nil {
		rep.Fatal(f, "%v", err)
	}
	v, _ := runHold(w.Property, w.Replay.Hold, 300*time.Millisecond)
	for _, m := range v {
		fmt.Println("  ", m)
	}
	if len(v) > 0 {
		fmt.Printf("VIOLATION property=%s replay=%s\n", w.Property, f.Replay)
		return 1
	}
	fmt.Println("no violation")
	return 0
}
