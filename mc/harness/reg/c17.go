package main

import "nriverif/lib/rep"

func engineC17(f *rep.Flags, res *rep.Result) bool { return false }
func replayC17(f *rep.Flags) int                   { return 0 }
