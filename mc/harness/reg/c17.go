package main

import (
	"context"
	"encoding/json"
	"errors"
	"fmt"
	"net"
	"os"
	"path/filepath"
	"strings"
	"sync"
	"syscall"
	"time"

	"github.com/containerd/nri/pkg/adaptation"
	"github.com/containerd/nri/pkg/api"
	"github.com/containerd/nri/pkg/net/multiplex"
	"github.com/containerd/ttrpc"

	"nriverif/lib/full"
	"nriverif/lib/rep"
	"nriverif/lib/seam"
)

// rawPlugin speaks the real protocol (real mux, real ttrpc, generated
// services) but registers with arbitrary strings and misbehaves on request.
type rawPlugin struct {
	name, idx string
	behave    string // "" good | never-register | late-register | no-configure-answer | bad-mask | close-after-register | close-after-configure
	mask      int32
	delay     time.Duration

	mu        sync.Mutex
	configure int
	syncs     int
	events    int
	regErr    error
	conn      net.Conn
	mux       multiplex.Mux
	srv       *ttrpc.Server
	cli       *ttrpc.Client
	hang      chan struct{}
}

func (p *rawPlugin) Configure(ctx context.Context, req *api.ConfigureRequest) (*api.ConfigureResponse, error) {
	p.mu.Lock()
	p.configure++
	p.mu.Unlock()
	switch p.behave {
	case "no-configure-answer", "register-repeatedly":
		<-p.hang
		return nil, errors.New("too late")
	case "close-after-configure":
		go p.close()
		return &api.ConfigureResponse{Events: p.mask}, nil
	}
	return &api.ConfigureResponse{Events: p.mask}, nil
}
func (p *rawPlugin) Synchronize(ctx context.Context, req *api.SynchronizeRequest) (*api.SynchronizeResponse, error) {
	p.mu.Lock()
	p.syncs++
	p.mu.Unlock()
	return &api.SynchronizeResponse{More: req.More}, nil
}
func (p *rawPlugin) Shutdown(context.Context, *api.Empty) (*api.Empty, error) {
	return &api.Empty{}, nil
}
func (p *rawPlugin) got() (*api.Empty, error) {
	p.mu.Lock()
	p.events++
	p.mu.Unlock()
	return &api.Empty{}, nil
}
func (p *rawPlugin) CreateContainer(context.Context, *api.CreateContainerRequest) (*api.CreateContainerResponse, error) {
	p.got()
	return &api.CreateContainerResponse{}, nil
}
func (p *rawPlugin) UpdateContainer(context.Context, *api.UpdateContainerRequest) (*api.UpdateContainerResponse, error) {
	p.got()
	return &api.UpdateContainerResponse{}, nil
}
func (p *rawPlugin) StopContainer(context.Context, *api.StopContainerRequest) (*api.StopContainerResponse, error) {
	p.got()
	return &api.StopContainerResponse{}, nil
}
func (p *rawPlugin) UpdatePodSandbox(context.Context, *api.UpdatePodSandboxRequest) (*api.UpdatePodSandboxResponse, error) {
	p.got()
	return &api.UpdatePodSandboxResponse{}, nil
}
func (p *rawPlugin) StateChange(context.Context, *api.StateChangeEvent) (*api.Empty, error) {
	return p.got()
}

func (p *rawPlugin) counts() (int, int, int) {
	p.mu.Lock()
	defer p.mu.Unlock()
	return p.configure, p.syncs, p.events
}

func (p *rawPlugin) close() {
	p.mu.Lock()
	defer p.mu.Unlock()
	if p.mux != nil {
		p.mux.Close()
		p.mux = nil
	}
	if p.conn != nil {
		p.conn.Close()
	}
}

// connect dials the runtime and runs the handshake in the background.
func (p *rawPlugin) connect(sock string) error {
	c, err := net.Dial("unix", sock)
	if err != nil {
		return err
	}
	p.conn = c
	p.hang = make(chan struct{})
	p.mux = multiplex.Multiplex(c)
	l, err := p.mux.Listen(multiplex.PluginServiceConn)
	if err != nil {
		return err
	}
	srv, err := ttrpc.NewServer()
	if err != nil {
		return err
	}
	p.srv = srv
	api.RegisterPluginService(srv, p)
	go srv.Serve(context.Background(), l)
	rc, err := p.mux.Open(multiplex.RuntimeServiceConn)
	if err != nil {
		return err
	}
	p.cli = ttrpc.NewClient(rc)
	rtc := api.NewRuntimeClient(p.cli)
	go func() {
		switch p.behave {
		case "never-register":
			return
		case "late-register":
			time.Sleep(p.delay)
		}
		ctx, cancel := context.WithTimeout(context.Background(), 5*time.Second)
		defer cancel()
		_, err := rtc.RegisterPlugin(ctx, &api.RegisterPluginRequest{PluginName: p.name, PluginIdx: p.idx})
		p.mu.Lock()
		p.regErr = err
		p.mu.Unlock()
		if p.behave == "close-after-register" {
			p.close()
		}
		if p.behave == "register-repeatedly" {
			// a plugin that repeats its registration on the same connection (and never answers Configure)
			for k := 0; k < 3; k++ {
				go func() {
					ctx, cancel := context.WithTimeout(context.Background(), 5*time.Second)
					defer cancel()
					rtc.RegisterPlugin(ctx, &api.RegisterPluginRequest{PluginName: p.name, PluginIdx: p.idx})
				}()
			}
		}
	}()
	return nil
}

func validIdx(s string) bool {
	return len(s) == 2 && s[0] >= '0' && s[0] <= '9' && s[1] >= '0' && s[1] <= '9'
}

var evtC17 = &api.StateChangeEvent{Pod: &api.PodSandbox{Id: "pod0"}, Container: &api.Container{Id: "c0"}}

func waitFor(d time.Duration, f func() bool) bool {
	for deadline := time.Now().Add(d); time.Now().Before(deadline); time.Sleep(2 * time.Millisecond) {
		if f() {
			return true
		}
	}
	return f()
}

// ---- names / indices ----------------------------------------------------

func engineNames(f *rep.Flags, res *rep.Result) {
	adaptation.SetPluginRegistrationTimeout(2 * time.Second)
	adaptation.SetPluginRequestTimeout(2 * time.Second)
	alpha := []string{"0", "5", "9", "a", "-", " ", "/", "٣"}
	var idxs []string
	var rec func(cur string, n int)
	rec = func(cur string, n int) {
		idxs = append(idxs, cur)
		if n == 3 {
			return
		}
		for _, a := range alpha {
			rec(cur+a, n+1)
		}
	}
	rec("", 0)
	namesL := []string{"", "a", "a-b", strings.Repeat("n", 200)}
	type cs struct{ idx, name string }
	var cases []cs
	for _, ix := range idxs {
		for ni, nm := range namesL {
			if !f.Thorough() && ni >= 2 && !validIdx(ix) && len(ix) != 2 {
				continue // quick: long / dashed names only with plausible indices
			}
			cases = append(cases, cs{ix, nm})
		}
	}
	type fnd struct{ sig, msg string }
	runBatch := func(start, end int, count bool) []fnd {
		var out []fnd
		fail := func(sig, m string, a ...any) { out = append(out, fnd{f.Prop + "|names|" + sig, fmt.Sprintf(m, a...)}) }
		rt, err := full.NewRuntime()
		if err != nil {
			rep.Fatal(f, "%v", err)
		}
		if err := rt.Start(); err != nil {
			rep.Fatal(f, "%v", err)
		}
		defer rt.Close()
		var ps []*rawPlugin
		for _, c := range cases[start:end] {
			p := &rawPlugin{name: c.name, idx: c.idx}
			if err := p.connect(rt.Sock); err != nil {
				rep.Fatal(f, "connect: %v", err)
			}
			ps = append(ps, p)
		}
		// a good plugin after all of them: must still get in
		good := &rawPlugin{name: "good", idx: "99"}
		good.connect(rt.Sock)
		if !waitFor(30*time.Second, func() bool { return isActive(rt, "99-good") }) {
			fail("blocks-later-plugins", "a well-formed plugin connecting after %d others (indices like %q) was not synchronized within 30 s", len(ps), cases[start].idx)
		}
		if err := rt.R.StartContainer(context.Background(), evtC17); err != nil {
			fail("event-error", "event failed: %v", err)
		}
		time.Sleep(5 * time.Millisecond)
		for i, p := range ps {
			c := cases[start+i]
			_, syncs, events := p.counts()
			want := c.name != "" && validIdx(c.idx)
			if count {
				res.Evaluations++
				res.Transitions++
			}
			got := syncs > 0 || events > 0
			if want && !(syncs == 1 && events == 1) {
				fail("valid-not-activated", "plugin with name %q index %q: synchronized %d times, %d events (expected activation)", short(c.name), c.idx, syncs, events)
			}
			if !want && got {
				kind := "empty-name"
				if c.name != "" {
					kind = "bad-index"
				}
				fail("invalid-activated|"+kind, "plugin with name %q index %q is not well-formed but was synchronized %d times and received %d events", short(c.name), c.idx, syncs, events)
			}
			p.close()
		}
		if _, s, e := good.counts(); s != 1 || e != 1 {
			fail("blocks-later-plugins", "the well-formed plugin after the batch was synchronized %d times and got %d events", s, e)
		}
		good.close()
		return out
	}
	const batch = 40
	for start := 0; start < len(cases); start += batch {
		if (start/batch)%f.NShards != f.Shard {
			continue
		}
		end := start + batch
		if end > len(cases) {
			end = len(cases)
		}
		fs := runBatch(start, end, true)
		// a finding is believed only if it recurs in two further executions of the same batch
		for try := 0; try < 2 && len(fs) > 0; try++ {
			time.Sleep(300 * time.Millisecond)
			again := map[string]bool{}
			for _, x := range runBatch(start, end, false) {
				again[x.sig] = true
			}
			var keep []fnd
			for _, x := range fs {
				if again[x.sig] {
					keep = append(keep, x)
				} else {
					res.Notes = append(res.Notes, "not reproduced on re-execution (load/timing): "+x.msg)
				}
			}
			fs = keep
		}
		for _, x := range fs {
			res.Add(x.sig, x.msg, map[string]any{"signature": x.sig})
		}
		res.States++
	}
	res.Distinct = res.Evaluations
	res.Bounds["index_strings"] = len(idxs)
	res.Bounds["names"] = len(namesL)
	res.Bounds["handshakes"] = len(cases)
	res.Sample(map[string]any{"index": "٣", "name": "a", "expect": "two bytes but not two ASCII digits: never synchronized, no events"})
}

func isActive(rt *full.Runtime, name string) bool {
	for _, n := range adaptation.VerifActiveNames(rt.R) {
		if n == name {
			return true
		}
	}
	return false
}

func short(s string) string {
	if len(s) > 12 {
		return s[:12] + "..."
	}
	return s
}

// ---- masks --------------------------------------------------------------

func engineMasksC17(f *rep.Flags, res *rep.Result) {
	env, err := seam.NewEnv()
	if err != nil {
		rep.Fatal(f, "%v", err)
	}
	var answer int32
	fk := env.AddFake("10", "m", 0, func(_ *seam.Fake, method string, _ any) (any, error) {
		if method == "Configure" {
			return &api.ConfigureResponse{Events: answer}, nil
		}
		return &api.Empty{}, nil
	})
	valid := int32(api.ValidEvents)
	nBad := 0
	check := func(m int32) {
		answer = m
		err := fk.VP.Configure(context.Background(), "rt", "1", "")
		res.Evaluations++
		want := m&^valid == 0
		if want && err != nil {
			res.Add(f.Prop+"|masks|valid-rejected", fmt.Sprintf("valid mask 0x%x rejected: %v", uint32(m), err), map[string]any{"mask": m})
		}
		if !want && err == nil {
			if nBad < 50 {
				bit := 0
				for b := 13; b < 32; b++ {
					if m>>uint(b)&1 == 1 {
						bit = b
					}
				}
				res.Add(fmt.Sprintf("%s|masks|invalid-accepted|highest-bit=%d", f.Prop, bit), fmt.Sprintf("mask 0x%x contains undefined event bits but was accepted (plugin subscribed to 0x%x)", uint32(m), uint32(fk.VP.Events())), map[string]any{"mask": m})
			}
			nBad++
		}
		if want && err == nil {
			exp := api.EventMask(m)
			if m == 0 {
				exp = api.ValidEvents
			}
			if fk.VP.Events() != exp {
				res.Add(f.Prop+"|masks|wrong-subscription", fmt.Sprintf("mask 0x%x accepted but the plugin is subscribed to 0x%x", uint32(m), uint32(fk.VP.Events())), map[string]any{"mask": m})
			}
		}
	}
	if f.Thorough() {
		// all 2^32 values, sharded by the top bits
		per := uint64(1) << 32 / uint64(f.NShards)
		lo := uint64(f.Shard) * per
		hi := lo + per
		if f.Shard == f.NShards-1 {
			hi = 1 << 32
		}
		for v := lo; v < hi; v++ {
			check(int32(uint32(v)))
		}
		res.Bounds["mask_values"] = "all 2^32"
	} else {
		if f.Shard == 0 {
			for m := int32(0); m <= valid; m++ {
				check(m)
			}
			boundary := []int32{0, 1, valid, 0x1555, 1 << 12}
			for b := 13; b < 32; b++ {
				for _, base := range boundary {
					check(base | int32(uint32(1)<<uint(b)))
				}
				for b2 := b + 1; b2 < 32; b2++ {
					check(int32(uint32(1)<<uint(b) | uint32(1)<<uint(b2)))
					check(valid | int32(uint32(1)<<uint(b)|uint32(1)<<uint(b2)))
				}
			}
			check(-1)
		}
		res.Bounds["mask_values"] = "all 8192 valid masks, every single invalid bit on 5 boundary masks, all pairs of invalid bits, all ones"
	}
	res.States = res.Evaluations
	res.Transitions = res.Evaluations
	res.Distinct = res.Evaluations
	res.Sample(map[string]any{"mask": "0x80000001", "expect": "rejected: bit 31 is not a defined event"})
}

// ---- stalls ---------------------------------------------------------------

// runStallVector runs one vector of misbehaving plugins ahead of a good one with the given timeouts.
func runStallVector(prop string, vec []string, to time.Duration) (out [][2]string) {
	fail := func(sig, m string, a ...any) {
		out = append(out, [2]string{prop + "|stalls|" + sig, fmt.Sprintf(m, a...)})
	}
	adaptation.SetPluginRegistrationTimeout(to)
	adaptation.SetPluginRequestTimeout(to)
	rt, err := full.NewRuntime()
	if err != nil {
		return nil
	}
	rt.Start()
	defer rt.Close()
	var bad []*rawPlugin
	for i, k := range vec {
		if k == "idle" {
			// nothing connects for longer than the registration timeout
			time.Sleep(to + to/2)
			bad = append(bad, nil)
			continue
		}
		p := &rawPlugin{name: fmt.Sprintf("bad%d", i), idx: fmt.Sprintf("%02d", i+1), behave: k, delay: 3 * to}
		switch k {
		case "bad-mask":
			p.mask = 1 << 20
		case "bad-index":
			p.idx = "5"
		case "empty-name":
			p.name = ""
		}
		p.connect(rt.Sock)
		bad = append(bad, p)
	}
	good := &rawPlugin{name: "good", idx: "50"}
	good.connect(rt.Sock)
	horizon := time.Duration(len(vec)+1)*4*to + 10*time.Second
	ok := waitFor(horizon, func() bool { return isActive(rt, "50-good") })
	if !ok {
		fail("blocks-later-plugins|"+strings.Join(vec, "+"), "with stalled plugins %v ahead, a good plugin was not active within %v", vec, horizon)
	} else {
		// the stalled plugins have been dealt with: the event round trip itself is not under test here
		adaptation.SetPluginRequestTimeout(10 * time.Second)
		rt.R.StartContainer(context.Background(), evtC17)
		time.Sleep(5 * time.Millisecond)
		if _, _, e := good.counts(); e != 1 {
			fail("good-no-events", "the good plugin behind %v received %d events", vec, e)
		}
	}
	for i, p := range bad {
		if p == nil {
			continue
		}
		_, s, e := p.counts()
		// a plugin that registers correctly and then drops its connection is a well-formed
		// registration (it may or may not be synchronized before the drop is noticed)
		dropper := strings.HasPrefix(vec[i], "close-after-")
		if !dropper && (s > 0 || e > 0) {
			fail("bad-activated|"+vec[i], "plugin misbehaving as %q was synchronized %d times and received %d events", vec[i], s, e)
		}
		close(p.hang)
		p.close()
	}
	good.close()
	return out
}

func engineStalls(f *rep.Flags, res *rep.Result) {
	const to = 200 * time.Millisecond
	kinds := []string{"never-register", "late-register", "no-configure-answer", "bad-mask", "close-after-register", "close-after-configure", "bad-index", "empty-name", "register-repeatedly"}
	var vectors [][]string
	vectors = append(vectors, nil, []string{"idle"})
	for _, a := range kinds {
		vectors = append(vectors, []string{a})
		// an idle period longer than the registration timeout between the bad plugin and the next one
		vectors = append(vectors, []string{a, "idle"})
		for _, b := range kinds {
			vectors = append(vectors, []string{a, b})
			if f.Thorough() {
				vectors = append(vectors, []string{a, "idle", b}, []string{a, b, "idle"})
			}
		}
	}
	// the timeouts are process-global: one vector at a time per worker process (parallelism comes from shards)
	for i, vec := range vectors {
		if i%f.NShards != f.Shard {
			continue
		}
		fs := runStallVector(f.Prop, vec, to)
		res.Evaluations++
		res.Transitions += int64(len(vec) + 1)
		// believed only if it recurs with more generous timeouts (rules out load)
		for _, t2 := range []time.Duration{2 * to, 4 * to} {
			if len(fs) == 0 {
				break
			}
			time.Sleep(200 * time.Millisecond)
			again := map[string]bool{}
			for _, x := range runStallVector(f.Prop, vec, t2) {
				again[x[0]] = true
			}
			var keep [][2]string
			for _, x := range fs {
				if again[x[0]] {
					keep = append(keep, x)
				} else {
					res.Notes = append(res.Notes, "not reproduced with longer timeouts (load/timing): "+x[1])
				}
			}
			fs = keep
		}
		for _, x := range fs {
			res.Add(x[0], x[1], map[string]any{"vector": vec})
		}
	}
	res.States = res.Evaluations
	res.Distinct = res.Evaluations
	res.Bounds["stall_kinds"] = kinds
	res.Bounds["vectors"] = len(vectors)
	res.Bounds["timeouts_ms"] = to.Milliseconds()
	res.Sample(map[string]any{"ahead": []string{"never-register", "no-configure-answer"}, "expect": "both time out (200 ms each), neither is synchronized; the good plugin behind them becomes active and receives events"})
}

// ---- socket ----------------------------------------------------------------

func engineSocket(f *rep.Flags, res *rep.Result) {
	fail := func(sig, m string, a ...any) {
		res.Add(f.Prop+"|socket|"+sig, fmt.Sprintf(m, a...), map[string]any{"signature": sig})
	}
	base, err := os.MkdirTemp("/var/tmp", "nrisock-")
	if err != nil {
		rep.Fatal(f, "%v", err)
	}
	defer os.RemoveAll(base)
	nop := func(context.Context, adaptation.SyncCB) error { return nil }
	upd := func(context.Context, []*api.ContainerUpdate) ([]*api.ContainerUpdate, error) { return nil, nil }
	_, derr := os.Stat(api.DefaultSocketPath)
	preexistingDefault := derr == nil
	// disabled external connections: nothing is served, whatever the order (and repetition) of the
	// options that accompany the disabling one
	{
		type opt struct {
			name string
			mk   func(sock string) adaptation.Option
		}
		pool := []opt{
			{"disabled", func(string) adaptation.Option { return adaptation.WithDisabledExternalConnections() }},
			{"socket", func(s string) adaptation.Option { return adaptation.WithSocketPath(s) }},
			{"plugin-path", func(string) adaptation.Option { return adaptation.WithPluginPath(filepath.Join(base, "none")) }},
			{"config-path", func(string) adaptation.Option { return adaptation.WithPluginConfigPath(filepath.Join(base, "noconf")) }},
		}
		var seqs [][]int
		var rec func(cur []int)
		rec = func(cur []int) {
			has := false
			for _, k := range cur {
				has = has || k == 0
			}
			if has {
				seqs = append(seqs, append([]int(nil), cur...))
			}
			if len(cur) == 4 {
				return
			}
			for k := range pool {
				rec(append(cur, k))
			}
		}
		rec(nil)
		for i, seq := range seqs {
			sock := filepath.Join(base, fmt.Sprintf("disabled%d", i), "nri.sock")
			var opts []adaptation.Option
			var names []string
			for _, k := range seq {
				opts = append(opts, pool[k].mk(sock))
				names = append(names, pool[k].name)
			}
			what := strings.Join(names, ",")
			r, err := adaptation.New("rt", "1", nop, upd, opts...)
			if err != nil {
				rep.Fatal(f, "%v", err)
			}
			if err := r.Start(); err != nil {
				fail("disabled-start", "options [%s]: Start with disabled connections failed: %v", what, err)
			}
			res.Evaluations++
			check := []string{sock}
			if !preexistingDefault {
				check = append(check, api.DefaultSocketPath) // the path NRI serves when no socket option is given
			}
			for _, s := range check {
				if _, err := os.Stat(s); err == nil {
					fail("disabled-serves", "options [%s]: a socket %s exists although external connections are disabled", what, s)
				}
				if c, err := net.DialTimeout("unix", s, time.Second); err == nil {
					c.Close()
					fail("disabled-serves", "options [%s]: a plugin could connect to %s although external connections are disabled", what, s)
				}
			}
			r.Stop()
		}
		res.Bounds["option_sequences_with_disabled_connections"] = len(seqs)
	}
	n := 0
	for _, um := range []int{0o000, 0o002, 0o022, 0o027, 0o077} {
		for depth := 1; depth <= 3; depth++ {
			old := syscall.Umask(um)
			root := filepath.Join(base, fmt.Sprintf("u%03o-d%d", um, depth))
			os.Mkdir(root, 0o777)
			dir := root
			var created []string
			for i := 0; i < depth; i++ {
				dir = filepath.Join(dir, fmt.Sprintf("n%d", i))
				created = append(created, dir)
			}
			sock := filepath.Join(dir, "nri.sock")
			r, err := adaptation.New("rt", "1", nop, upd, adaptation.WithSocketPath(sock), adaptation.WithPluginPath(filepath.Join(base, "none")))
			if err == nil {
				err = r.Start()
			}
			syscall.Umask(old)
			res.Evaluations++
			n++
			if err != nil {
				fail("start-failed", "Start with socket %s failed: %v", sock, err)
				continue
			}
			for _, d := range created {
				st, err := os.Stat(d)
				if err != nil {
					fail("dir-missing", "directory %s was not created", d)
					continue
				}
				if st.Mode().Perm()&0o077 != 0 {
					fail("dir-accessible", "directory created by NRI has mode %04o (umask %03o): accessible to group/others", st.Mode().Perm(), um)
				}
			}
			if c, err := net.DialTimeout("unix", sock, time.Second); err != nil {
				fail("not-served", "cannot connect to %s: %v", sock, err)
			} else {
				c.Close()
			}
			r.Stop()
		}
	}
	res.States, res.Transitions, res.Distinct = res.Evaluations, res.Evaluations, res.Evaluations
	res.Bounds["umasks"] = []string{"000", "002", "022", "027", "077"}
	res.Bounds["missing_path_components"] = "1-3"
	res.Sample(map[string]any{"umask": "000", "missing_components": 3, "expect": "every created directory has no group/other permission bits"})
}

func engineC17(f *rep.Flags, res *rep.Result) bool {
	switch f.Engine {
	case "names":
		res.Rule = "every index string of length 0-3 over {'0','5','9','a','-',' ','/','٣'} x names {'', a, a-b, 200 chars} registered by a raw protocol plugin (real mux + ttrpc) in batches of 40 followed by a well-formed plugin; activated iff name non-empty and index is two ASCII digits; distinct = (index, name) pairs"
		engineNames(f, res)
	case "masks":
		res.Rule = "event masks answered to the real configure step: all 8192 valid masks, every single undefined bit 13..31 on boundary masks, all pairs of undefined bits (thorough: all 2^32 values); accepted iff no undefined bit; distinct = mask values"
		engineMasksC17(f, res)
	case "stalls":
		res.Rule = "every vector of 0-2 misbehaving plugins (never registers, registers late, never answers Configure, invalid mask, closes after register / configure, bad index, empty name) ahead of one good plugin with 200 ms timeouts; exhaustive over vectors, free-running underneath"
		res.Assumptions = append(res.Assumptions, "the good plugin must be active within (bad plugins + 1) x 800 ms + 8 s")
		engineStalls(f, res)
	case "socket":
		res.Rule = "external connections disabled => no socket; otherwise umask in {000,002,022,027,077} x 1-3 missing path components: every directory NRI created is inaccessible to group and others; distinct = (umask, depth) pairs"
		engineSocket(f, res)
	default:
		return false
	}
	return true
}

func replayC17(f *rep.Flags) int {
	b, _ := os.ReadFile(f.Replay)
	var w struct {
		Signature string `json:"signature"`
	}
	json.Unmarshal(b, &w)
	res := &rep.Result{Property: f.Prop, Bounds: map[string]any{}}
	engineC17(f, res)
	for _, x := range res.Findings {
		if x.Signature == w.Signature {
			fmt.Printf("FINDING %s: %s\nVIOLATION property=%s replay=%s\n", x.Signature, x.Message, f.Prop, f.Replay)
			return 1
		}
	}
	fmt.Println("no violation")
	return 0
}
