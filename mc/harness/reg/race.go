package main

import (
	"context"
	"fmt"
	"sync"
	"time"

	"github.com/containerd/nri/pkg/adaptation"
	"github.com/containerd/nri/pkg/api"

	"nriverif/lib/full"
	"nriverif/lib/rep"
)

// engineRegRace: the registration scenarios free-running (no scheduler) over
// the full stack, meant for the -race build: plugins register while runtime
// goroutines create containers inside sync blocks and send unblocked events.
// The exactly-once oracle is evaluated too (supporting evidence, not exhaustive).
func engineRegRace(f *rep.Flags, res *rep.Result) {
	adaptation.SetPluginRegistrationTimeout(5 * time.Second)
	adaptation.SetPluginRequestTimeout(5 * time.Second)
	reps := 25
	n := 0
	for rp := 0; rp < reps; rp++ {
		rt, err := full.NewRuntime()
		if err != nil {
			rep.Fatal(f, "%v", err)
		}
		if err := rt.Start(); err != nil {
			rep.Fatal(f, "%v", err)
		}
		var plugins []*full.Plugin
		var wg sync.WaitGroup
		for i := 0; i < 2; i++ {
			pl := full.NewPlugin(fmt.Sprintf("%02d", 10*(i+1)), fmt.Sprintf("r%d", i))
			plugins = append(plugins, pl)
			wg.Add(1)
			go func(pl *full.Plugin, d time.Duration) {
				defer wg.Done()
				time.Sleep(d)
				pl.Start(rt, nil)
			}(pl, time.Duration(rp%5)*200*time.Microsecond)
		}
		var created []string
		var cmu sync.Mutex
		for t := 0; t < 2; t++ {
			wg.Add(1)
			go func(t int) {
				defer wg.Done()
				for k := 0; k < 3; k++ {
					id := fmt.Sprintf("c%d-%d", t, k)
					b := rt.R.BlockPluginSync()
					c := &api.Container{Id: id, PodSandboxId: "pod0", Name: id}
					rt.AddContainer(c)
					rt.R.CreateContainer(context.Background(), &api.CreateContainerRequest{Pod: &api.PodSandbox{Id: "pod0"}, Container: c})
					b.Unblock()
					cmu.Lock()
					created = append(created, id)
					cmu.Unlock()
				}
			}(t)
		}
		wg.Add(1)
		go func() {
			defer wg.Done()
			for k := 0; k < 6; k++ {
				rt.R.StartContainer(context.Background(), &api.StateChangeEvent{Pod: &api.PodSandbox{Id: "pod0"}, Container: &api.Container{Id: "e"}})
			}
		}()
		wg.Wait()
		for _, pl := range plugins {
			if !pl.WaitActive(rt, 10*time.Second) {
				res.Add(f.Prop+"|reg-race|registration-stuck", "a plugin did not become active in the free-running scenario", nil)
				continue
			}
			_, snap := pl.SyncIDs(0)
			seen := map[string]int{}
			for _, id := range snap {
				seen[id]++
			}
			for _, c := range pl.Calls() {
				if c.Method == "CreateContainer" {
					seen[c.Ctr]++
				}
			}
			for _, id := range created {
				if seen[id] != 1 {
					res.Add(f.Prop+"|reg-race|exactly-once", fmt.Sprintf("plugin %s learned of container %s %d times (free-running)", pl.Name, id, seen[id]), nil)
				}
			}
		}
		for _, pl := range plugins {
			if pl.Stub != nil {
				pl.Stub.Stop()
			}
		}
		rt.Close()
		n++
	}
	res.Exhaustive = false
	res.Supporting = true
	res.Evaluations, res.States, res.Transitions, res.Distinct = int64(n), int64(n), int64(n*20), 2
	res.Rule = "free-running repetitions of the registration-vs-creation scenario over the full stack under the Go race detector (supporting evidence; the deciding exploration is the controlled engine)"
	res.Bounds["free_running_runs"] = n
	res.Sample(map[string]any{"scenario": "2 plugins registering while 2 goroutines create 3 containers each inside sync blocks and 1 goroutine sends 6 events", "mode": "free-running under -race"})
}
