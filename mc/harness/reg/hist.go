package main

import (
	"context"
	"encoding/json"
	"fmt"
	"io"
	"os"
	"sort"
	"strings"
	"sync"
	"time"

	"github.com/containerd/nri/pkg/adaptation"
	"github.com/containerd/nri/pkg/api"
	"github.com/sirupsen/logrus"

	"nriverif/lib/full"
	"nriverif/lib/rep"
)

// Engine "hist" (C06, C07): every history of plugin connects, disconnects and
// events over three indices, through the real socket, accept loop and lazy
// reaping of closed plugins.  After every event (and at the end of every
// history) exactly the live plugins must have been invoked, once each, in
// ascending index order.
//
// ops: "C10" "C20" "C30" connect a plugin with that index (a plugin that was
// disconnected before comes back as a new instance with the same name),
// "D10".. disconnect, "E" deliver an event.

type histOp string

func genRegHist(maxLen int) [][]histOp {
	idx := []string{"10", "20", "30"}
	var out [][]histOp
	var rec func(cur []histOp, live map[string]bool)
	rec = func(cur []histOp, live map[string]bool) {
		if len(cur) > 0 {
			// (a history ending in an event is followed by the final event all the same: closed plugins
			// are reaped at the end of a request, the next request shows what the reaping left behind)
			out = append(out, append([]histOp(nil), cur...))
		}
		if len(cur) == maxLen {
			return
		}
		for _, i := range idx {
			if !live[i] {
				live[i] = true
				rec(append(cur, histOp("C"+i)), live)
				live[i] = false
			} else {
				live[i] = false
				rec(append(cur, histOp("D"+i)), live)
				live[i] = true
			}
		}
		if len(cur) > 0 && cur[len(cur)-1] != "E" {
			rec(append(cur, "E"), live)
		}
	}
	rec(nil, map[string]bool{})
	return out
}

func histString(h []histOp) string {
	var s []string
	for _, o := range h {
		s = append(s, string(o))
	}
	return strings.Join(s, " ")
}

func runRegHist(prop string, h []histOp) (viol []string, sig string) {
	add := func(kind, f string, a ...any) {
		viol = append(viol, fmt.Sprintf(f, a...))
		if sig == "" {
			sig = prop + "|reg-hist|" + kind
		}
	}
	rt, err := full.NewRuntime()
	if err != nil {
		return []string{"machinery: " + err.Error()}, "machinery"
	}
	defer rt.Close()
	if err := rt.Start(); err != nil {
		return []string{"machinery: " + err.Error()}, "machinery"
	}
	var mu sync.Mutex
	var seq []string // invocation log: instance ids
	live := map[string]*full.Plugin{}
	inst := map[*full.Plugin]string{}
	gen := map[string]int{}
	var all []*full.Plugin
	defer func() {
		for _, p := range all {
			if p.Stub != nil {
				p.Stub.Stop()
			}
		}
	}()
	wantOpen := func() []string {
		var w []string
		for i := range live {
			w = append(w, i+"-p")
		}
		sort.Strings(w)
		return w
	}
	settle := func(what string) bool {
		// the runtime's table: exactly the live plugins are open (closed ones may linger until reaped)
		want := strings.Join(wantOpen(), ",")
		var got string
		for deadline := time.Now().Add(8 * time.Second); time.Now().Before(deadline); time.Sleep(time.Millisecond) {
			open, _ := adaptation.VerifPluginStates(rt.R)
			sort.Strings(open)
			got = strings.Join(open, ",")
			if got == want {
				return true
			}
		}
		add("table", "history %q, %s: the runtime's plugin table lists open plugins [%s], live plugins are [%s]", histString(h), what, got, want)
		return false
	}
	event := func(what string) bool {
		mu.Lock()
		seq = nil
		mu.Unlock()
		if err := rt.R.StartContainer(context.Background(), &api.StateChangeEvent{Pod: &api.PodSandbox{Id: "pod0"}, Container: &api.Container{Id: "c0"}}); err != nil {
			add("event-error", "history %q, %s: the event failed: %v", histString(h), what, err)
			return false
		}
		var want []string
		var idxs []string
		for i := range live {
			idxs = append(idxs, i)
		}
		sort.Strings(idxs)
		for _, i := range idxs {
			want = append(want, inst[live[i]])
		}
		mu.Lock()
		got := append([]string(nil), seq...)
		mu.Unlock()
		if strings.Join(got, " ") != strings.Join(want, " ") {
			kind := "order"
			if len(got) != len(want) {
				kind = "not-exactly-the-live-plugins"
			} else {
				a, b := append([]string(nil), got...), append([]string(nil), want...)
				sort.Strings(a)
				sort.Strings(b)
				if strings.Join(a, " ") != strings.Join(b, " ") {
					kind = "not-exactly-the-live-plugins"
				}
			}
			add(kind, "history %q, %s: the event was delivered to [%s], expected the live plugins in index order [%s]", histString(h), what, strings.Join(got, " "), strings.Join(want, " "))
			return false
		}
		return true
	}
	for n, op := range h {
		what := fmt.Sprintf("step %d (%s)", n, op)
		switch {
		case op == "E":
			if !event(what) {
				return
			}
		case op[0] == 'C':
			i := string(op[1:])
			p := full.NewPlugin(i, "p")
			gen[i]++
			id := fmt.Sprintf("%s#%d", i, gen[i])
			inst[p] = id
			p.EventFn = func(string, *api.PodSandbox, *api.Container) error {
				mu.Lock()
				seq = append(seq, id)
				mu.Unlock()
				return nil
			}
			all = append(all, p)
			if err := p.Start(rt, nil); err != nil {
				add("connect-failed", "history %q, %s: the plugin could not register: %v", histString(h), what, err)
				return
			}
			live[i] = p
			if !settle(what) {
				return
			}
		case op[0] == 'D':
			i := string(op[1:])
			p := live[i]
			delete(live, i)
			p.Stub.Stop()
			if !settle(what) {
				return
			}
		}
	}
	event("final event")
	return
}

func engineRegHist(f *rep.Flags, res *rep.Result) {
	logrus.SetOutput(io.Discard)
	adaptation.SetPluginRegistrationTimeout(20 * time.Second)
	adaptation.SetPluginRequestTimeout(20 * time.Second)
	maxLen := 6
	if f.Thorough() {
		maxLen = 8
	}
	hs := genRegHist(maxLen)
	res.Rule = fmt.Sprintf("every history of length <= %d over {connect, disconnect} x index {10,20,30} and event delivery, through the real socket, accept loop and lazy reaping of closed plugins (a reconnect is a new instance with the same index and name); oracle after every event and at the end of every history: exactly the live plugin instances were invoked, once each, in ascending index order", maxLen)
	res.Assumptions = append(res.Assumptions, "free-running underneath (real sockets); each step waits until the runtime's plugin table shows exactly the live plugins as open; a failing history is believed only after failing three times in a row")
	type job struct{ h []histOp }
	jobs := make(chan job, 16)
	var mu sync.Mutex
	var wg sync.WaitGroup
	for w := 0; w < 4; w++ {
		wg.Add(1)
		go func() {
			defer wg.Done()
			for j := range jobs {
				mu.Lock()
				stop := len(res.Findings) >= 3
				mu.Unlock()
				if stop {
					continue
				}
				var v []string
				var sig string
				fails := 0
				for try := 0; try < 3; try++ {
					v, sig = runRegHist(f.Prop, j.h)
					if len(v) == 0 {
						break
					}
					fails++
					time.Sleep(100 * time.Millisecond)
				}
				mu.Lock()
				res.Evaluations++
				res.States += int64(len(j.h) + 1)
				res.Transitions += int64(len(j.h) + 1)
				switch {
				case fails == 0:
				case fails < 3:
					res.Notes = append(res.Notes, fmt.Sprintf("not reproduced three times in a row: %q: %s", histString(j.h), v))
				case sig == "machinery":
					res.Exhaustive = false
					res.Notes = append(res.Notes, fmt.Sprintf("history skipped: %q: %s", histString(j.h), v[0]))
				default:
					res.Add(sig, strings.Join(v, "\n  "), map[string]any{"engine": "hist", "history": j.h})
				}
				mu.Unlock()
			}
		}()
	}
	for i, h := range hs {
		if i%f.NShards != f.Shard {
			continue
		}
		jobs <- job{h}
	}
	close(jobs)
	wg.Wait()
	if len(res.Findings) >= 3 && res.Evaluations < int64(len(hs)) {
		res.Exhaustive = false
		res.Notes = append(res.Notes, "stopped after three confirmed findings")
	}
	res.Distinct = res.Evaluations
	res.Bounds["max_history_length"] = maxLen
	res.Bounds["histories"] = len(hs)
	res.Sample(map[string]any{"history": "C10 C30 D10 C20", "expect": "final event reaches 20#1 then 30#1"})
}

func replayRegHist(f *rep.Flags) int {
	logrus.SetOutput(io.Discard)
	b, err := os.ReadFile(f.Replay)
	if err != nil {
		rep.Fatal(f, "%v", err)
	}
	var w struct {
		Property string `json:"property"`
		Replay   struct {
			History []histOp `json:"history"`
		} `json:"replay"`
	}
	json.Unmarshal(b, &w)
	v, _ := runRegHist(w.Property, w.Replay.History)
	for _, m := range v {
		fmt.Println("  ", m)
	}
	if len(v) > 0 {
		fmt.Printf("VIOLATION property=%s replay=%s\n", w.Property, f.Replay)
		return 1
	}
	fmt.Println("no violation")
	return 0
}
