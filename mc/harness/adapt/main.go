// Harness "adapt": request fan-out of the real Adaptation.
//
// engines:
//
//	masks   C06: all 8192 event masks x 13 lifecycle calls; all event sequences <= 3 with boundary masks
//	order   C06: index multisets / registration orders; veto by a handler error at every position
//	sched   C06/C01/C19: exhaustive interleavings (vsched) of concurrent runtime callers and unsolicited updates
package main

import (
	"context"
	"encoding/json"
	"errors"
	"fmt"
	"os"
	"sort"
	"strings"

	"github.com/containerd/nri/pkg/api"

	"nriverif/lib/rep"
	"nriverif/lib/seam"
)

var ctx = context.Background()

var pod = &api.PodSandbox{Id: "pod0", Name: "pod0"}

func ctr(id string) *api.Container { return &api.Container{Id: id, PodSandboxId: "pod0", Name: id} }

// the 13 lifecycle calls, in Event enum order
type lifecycle struct {
	name  string
	event api.Event
	call  func(e *seam.Env, id string) error
}

func evt(id string) *api.StateChangeEvent {
	return &api.StateChangeEvent{Pod: pod, Container: ctr(id)}
}

var calls = []lifecycle{
	{"RunPodSandbox", api.Event_RUN_POD_SANDBOX, func(e *seam.Env, id string) error { return e.R.RunPodSandbox(ctx, evt(id)) }},
	{"StopPodSandbox", api.Event_STOP_POD_SANDBOX, func(e *seam.Env, id string) error { return e.R.StopPodSandbox(ctx, evt(id)) }},
	{"RemovePodSandbox", api.Event_REMOVE_POD_SANDBOX, func(e *seam.Env, id string) error { return e.R.RemovePodSandbox(ctx, evt(id)) }},
	{"CreateContainer", api.Event_CREATE_CONTAINER, func(e *seam.Env, id string) error {
		_, err := e.R.CreateContainer(ctx, &api.CreateContainerRequest{Pod: pod, Container: ctr(id)})
		return err
	}},
	{"PostCreateContainer", api.Event_POST_CREATE_CONTAINER, func(e *seam.Env, id string) error { return e.R.PostCreateContainer(ctx, evt(id)) }},
	{"StartContainer", api.Event_START_CONTAINER, func(e *seam.Env, id string) error { return e.R.StartContainer(ctx, evt(id)) }},
	{"PostStartContainer", api.Event_POST_START_CONTAINER, func(e *seam.Env, id string) error { return e.R.PostStartContainer(ctx, evt(id)) }},
	{"UpdateContainer", api.Event_UPDATE_CONTAINER, func(e *seam.Env, id string) error {
		_, err := e.R.UpdateContainer(ctx, &api.UpdateContainerRequest{Pod: pod, Container: ctr(id), LinuxResources: &api.LinuxResources{}})
		return err
	}},
	{"PostUpdateContainer", api.Event_POST_UPDATE_CONTAINER, func(e *seam.Env, id string) error { return e.R.PostUpdateContainer(ctx, evt(id)) }},
	{"StopContainer", api.Event_STOP_CONTAINER, func(e *seam.Env, id string) error {
		_, err := e.R.StopContainer(ctx, &api.StopContainerRequest{Pod: pod, Container: ctr(id)})
		return err
	}},
	{"RemoveContainer", api.Event_REMOVE_CONTAINER, func(e *seam.Env, id string) error { return e.R.RemoveContainer(ctx, evt(id)) }},
	{"UpdatePodSandbox", api.Event_UPDATE_POD_SANDBOX, func(e *seam.Env, id string) error {
		_, err := e.R.UpdatePodSandbox(ctx, &api.UpdatePodSandboxRequest{Pod: pod})
		return err
	}},
	{"PostUpdatePodSandbox", api.Event_POST_UPDATE_POD_SANDBOX, func(e *seam.Env, id string) error { return e.R.PostUpdatePodSandbox(ctx, evt(id)) }},
}

// eventOf tells which event a fake was invoked for.
func eventOf(method string, req any) api.Event {
	switch method {
	case "CreateContainer":
		return api.Event_CREATE_CONTAINER
	case "UpdateContainer":
		return api.Event_UPDATE_CONTAINER
	case "StopContainer":
		return api.Event_STOP_CONTAINER
	case "UpdatePodSandbox":
		return api.Event_UPDATE_POD_SANDBOX
	case "StateChange":
		return req.(*api.StateChangeEvent).Event
	}
	return api.Event_UNKNOWN
}

func okResp(method string) any {
	switch method {
	case "CreateContainer":
		return &api.CreateContainerResponse{}
	case "UpdateContainer":
		return &api.UpdateContainerResponse{}
	case "StopContainer":
		return &api.StopContainerResponse{}
	case "UpdatePodSandbox":
		return &api.UpdatePodSandboxResponse{}
	case "Configure":
		return &api.ConfigureResponse{}
	case "Synchronize":
		return &api.SynchronizeResponse{}
	}
	return &api.Empty{}
}

func isSet(mask int32, e api.Event) bool { return mask&(1<<(uint(e)-1)) != 0 }

// ---- engine masks ------------------------------------------------------

func engineMasks(f *rep.Flags, res *rep.Result) {
	env, err := seam.NewEnv()
	if err != nil {
		rep.Fatal(f, "%v", err)
	}
	var cfgMask int32
	var got []api.Event
	fk := env.AddFake("10", "mask", 0, func(fk *seam.Fake, method string, req any) (any, error) {
		if method == "Configure" {
			return &api.ConfigureResponse{Events: cfgMask}, nil
		}
		got = append(got, eventOf(method, req))
		return okResp(method), nil
	})
	nAll := 0
	for m := int32(0); m <= int32(api.ValidEvents); m++ {
		cfgMask = m
		if err := fk.VP.Configure(ctx, "verif", "0", ""); err != nil {
			res.Add("C06|mask-rejected", fmt.Sprintf("valid mask 0x%x rejected by configure: %v", m, err), map[string]any{"mask": m})
			continue
		}
		for _, lc := range calls {
			got = got[:0]
			if err := lc.call(env, "c1"); err != nil {
				res.Add("C06|event-error|"+lc.name, fmt.Sprintf("mask 0x%x: %s failed: %v", m, lc.name, err), map[string]any{"mask": m, "call": lc.name})
			}
			want := m == 0 || isSet(m, lc.event)
			n := 0
			for _, e := range got {
				if e != lc.event {
					res.Add("C06|wrong-event|"+lc.name, fmt.Sprintf("mask 0x%x: %s delivered as event %v", m, lc.name, e), map[string]any{"mask": m, "call": lc.name})
				}
				n++
			}
			if want && n != 1 || !want && n != 0 {
				kind := "not-delivered"
				if n > 1 {
					kind = "delivered-twice"
				} else if !want {
					kind = "delivered-unsubscribed"
				}
				zero := ""
				if m == 0 {
					zero = "|empty-mask"
				}
				res.Add("C06|"+kind+"|"+lc.name+zero, fmt.Sprintf("mask 0x%x: %s reached the plugin %d times (subscribed: %v)", m, lc.name, n, want), map[string]any{"mask": m, "call": lc.name})
			}
			res.Evaluations++
			nAll++
		}
		res.States++
	}
	res.Transitions += int64(nAll)
	res.Distinct += int64(nAll)
	res.Bounds["masks"] = int(api.ValidEvents) + 1
	res.Bounds["lifecycle_calls"] = len(calls)
	res.Sample(map[string]any{"mask": "0x1555", "call": "CreateContainer", "expect_delivered": isSet(0x1555, api.Event_CREATE_CONTAINER)})

	// sequences of lifecycle calls against three plugins with boundary masks
	env2, _ := seam.NewEnv()
	type rec struct {
		p int
		e api.Event
	}
	var log []rec
	all := int32(api.ValidEvents)
	masks := []int32{1 << (uint(api.Event_CREATE_CONTAINER) - 1), all &^ (1 << (uint(api.Event_START_CONTAINER) - 1)), 0x1555 & all}
	for i, m := range masks {
		i := i
		env2.AddFake(seam.StdIdx(i), fmt.Sprintf("s%d", i), api.EventMask(m), func(fk *seam.Fake, method string, req any) (any, error) {
			log = append(log, rec{i, eventOf(method, req)})
			return okResp(method), nil
		})
	}
	maxLen := 3
	seq := make([]int, 0, maxLen)
	var walk func()
	nseq := 0
	walk = func() {
		if len(seq) > 0 {
			// replay the sequence on the long-lived environment, check the last call only
			// (earlier calls were checked when the shorter sequence was visited)
			for k, ci := range seq {
				log = log[:0]
				calls[ci].call(env2, "c1")
				if k != len(seq)-1 {
					continue
				}
				var exp []rec
				for i, m := range masks {
					if isSet(m, calls[ci].event) {
						exp = append(exp, rec{i, calls[ci].event})
					}
				}
				if fmt.Sprint(exp) != fmt.Sprint(log) {
					res.Add("C06|sequence-dependence|"+calls[ci].name, fmt.Sprintf("after calls %v the call %s was delivered as %v, expected %v", seq[:k], calls[ci].name, log, exp), map[string]any{"seq": append([]int(nil), seq...)})
				}
			}
			nseq++
			res.Evaluations++
			res.Transitions += int64(len(seq))
			res.States++
		}
		if len(seq) == maxLen {
			return
		}
		for ci := range calls {
			seq = append(seq, ci)
			walk()
			seq = seq[:len(seq)-1]
		}
	}
	walk()
	res.Distinct += int64(nseq)
	res.Bounds["event_sequences_up_to_len"] = maxLen
	res.Bounds["event_sequences"] = nseq
}

// ---- engine order ------------------------------------------------------

func perms(n int) [][]int {
	if n == 0 {
		return [][]int{{}}
	}
	var out [][]int
	for _, p := range perms(n - 1) {
		for i := 0; i <= len(p); i++ {
			q := append(append(append([]int{}, p[:i]...), n-1), p[i:]...)
			out = append(out, q)
		}
	}
	return out
}

func engineOrder(f *rep.Flags, res *rep.Result) {
	// 08 and 09 are not octal numbers; 00 and 99 are the ends of the range
	idxAlphabet := []string{"00", "05", "08", "09", "10", "50", "99"}
	maxN := 3
	if f.Thorough() {
		maxN = 4
	}
	nCases := 0
	// every multiset (as sequence) of indices, every registration order
	var idxs []string
	var rec func()
	rec = func() {
		if n := len(idxs); n > 0 {
			for _, order := range perms(n) {
				env, _ := seam.NewEnv()
				var log []string
				var vetoAt = -1
				for _, k := range order {
					k := k
					env.AddFake(idxs[k], fmt.Sprintf("n%d", k), api.ValidEvents, func(fk *seam.Fake, method string, req any) (any, error) {
						log = append(log, fk.Idx)
						if k == vetoAt {
							return nil, errors.New("veto by handler")
						}
						return okResp(method), nil
					})
				}
				for _, lc := range calls {
					log = log[:0]
					vetoAt = -1
					err := lc.call(env, "c1")
					nCases++
					res.Evaluations++
					res.Transitions += int64(len(log))
					if err != nil {
						res.Add("C06|event-error|"+lc.name, fmt.Sprintf("indices %v: %s failed: %v", idxs, lc.name, err), nil)
					}
					if len(log) != n {
						res.Add("C06|exactly-once|"+lc.name, fmt.Sprintf("indices %v registered in order %v: %s invoked plugins %v", idxs, order, lc.name, log), map[string]any{"idxs": idxs, "order": order})
					}
					if !sort.StringsAreSorted(log) {
						res.Add("C06|index-order|"+lc.name, fmt.Sprintf("indices %v registered in order %v: %s invoked plugins in order %v", idxs, order, lc.name, log), map[string]any{"idxs": idxs, "order": order})
					}
				}
				// veto at every position (positions in invocation order, distinct indices only)
				distinct := true
				for i := range idxs {
					for j := i + 1; j < len(idxs); j++ {
						if idxs[i] == idxs[j] {
							distinct = false
						}
					}
				}
				if distinct {
					sorted := append([]string(nil), idxs...)
					sort.Strings(sorted)
					for _, lc := range calls {
						for k := range idxs {
							vetoAt = k
							log = log[:0]
							err := lc.call(env, "c1")
							res.Evaluations++
							nCases++
							pos := sort.SearchStrings(sorted, idxs[k])
							if err == nil || !strings.Contains(err.Error(), "veto by handler") {
								res.Add("C06|veto-lost|"+lc.name, fmt.Sprintf("indices %v: handler error of plugin %s during %s was not returned (err=%v)", idxs, idxs[k], lc.name, err), map[string]any{"idxs": idxs, "veto": k})
							}
							if fmt.Sprint(log) != fmt.Sprint(sorted[:pos+1]) {
								res.Add("C06|veto-continues|"+lc.name, fmt.Sprintf("indices %v: after the veto of %s during %s the invoked plugins were %v, expected %v", idxs, idxs[k], lc.name, log, sorted[:pos+1]), map[string]any{"idxs": idxs, "veto": k})
							}
						}
					}
				}
				res.States++
			}
		}
		if len(idxs) == maxN {
			return
		}
		for _, ix := range idxAlphabet {
			idxs = append(idxs, ix)
			rec()
			idxs = idxs[:len(idxs)-1]
		}
	}
	rec()
	res.Distinct += int64(nCases)
	res.Bounds["index_alphabet"] = idxAlphabet
	res.Bounds["max_plugins_order"] = maxN
	res.Sample(map[string]any{"indices": []string{"50", "05", "05"}, "registration_order": []int{2, 0, 1}, "expect": "invocation order non-decreasing in index for every event"})
}

func main() {
	f := rep.ParseFlags()
	res := &rep.Result{Property: f.Prop, Engine: "adapt/" + f.Engine, Exhaustive: true, Bounds: map[string]any{}}
	if f.Replay != "" {
		replay(f)
		return
	}
	switch f.Engine {
	case "masks":
		res.Rule = "all 8192 masks installed through the real plugin.configure x 13 lifecycle calls through the public Adaptation methods; plus every sequence of <= 3 lifecycle calls against three plugins with boundary masks; distinct = (mask, call) pairs and sequences, all non-trivial"
		engineMasks(f, res)
	case "order":
		res.Rule = "every sequence of indices over {00,05,08,09,10,50,99} (incl. equal indices) of length <= 3 (4 thorough), every registration order, every lifecycle call; a handler error at every position; distinct = (indices, order, call[, veto position])"
		engineOrder(f, res)
	case "sched":
		engineSched(f, res)
	case "race":
		res.Exhaustive = false
		res.Supporting = true
		res.Rule = "free-running repetitions of the schedule scenarios' bodies under the Go race detector (supporting evidence: the cooperative scheduler's hand-offs hide unsynchronised accesses from it); not exhaustive"
		n := freeRun(f, res, 300)
		res.Evaluations, res.States, res.Transitions, res.Distinct = int64(n), int64(n), int64(n), 2
		res.Bounds["free_running_runs"] = n
		res.Sample(map[string]any{"scenario": "every schedule scenario of this property", "mode": "free-running under -race, 300 repetitions each"})
	default:
		rep.Fatal(f, "unknown engine %q", f.Engine)
	}
	res.Write(f)
}

func replay(f *rep.Flags) {
	b, err := os.ReadFile(f.Replay)
	if err != nil {
		rep.Fatal(f, "%v", err)
	}
	var w struct {
		Property  string          `json:"property"`
		Signature string          `json:"signature"`
		Message   string          `json:"message"`
		Replay    json.RawMessage `json:"replay"`
	}
	if err := json.Unmarshal(b, &w); err != nil {
		rep.Fatal(f, "%v", err)
	}
	if f.Engine == "sched" {
		os.Exit(replaySched(f, w.Property, w.Replay))
	}
	// the sequential engines are deterministic enumerations: re-run the engine and look for the signature
	res := &rep.Result{Property: w.Property, Bounds: map[string]any{}}
	switch f.Engine {
	case "masks":
		engineMasks(f, res)
	case "order":
		engineOrder(f, res)
	}
	for _, x := range res.Findings {
		if x.Signature == w.Signature {
			fmt.Printf("FINDING %s: %s\n", x.Signature, x.Message)
			fmt.Printf("VIOLATION property=%s replay=%s\n", w.Property, f.Replay)
			os.Exit(1)
		}
	}
	fmt.Println("no violation")
}
