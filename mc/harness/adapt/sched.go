package main

import (
	"context"
	"encoding/json"
	"fmt"
	"sort"
	"strings"
	"sync"
	"time"

	"github.com/containerd/nri/pkg/api"
	"github.com/containerd/nri/pkg/zzverif/vsched"

	"nriverif/lib/rep"
	"nriverif/lib/seam"
)

// op is one call a runtime-side thread makes.
type op struct {
	Kind string // create | update | stop | event:<CallName> | unsol:<plugin position>
	ID   string
}

type scen struct {
	Name    string
	Props   []string
	Masks   []api.EventMask // one fake per entry (0 = everything)
	Threads [][]op
	Collide string // "", "within", "across", "update"
	// Deep: thorough tier only; DeepBound: its preemption bound (the small scenarios complete bound 8 in seconds,
	// the deep ones are an order of magnitude larger per preemption)
	Deep      bool
	DeepBound int
}

func mk(e ...api.Event) api.EventMask {
	var m api.EventMask
	m.Set(e...)
	return m
}

var scens = []scen{
	{Name: "c06-two-creates", Props: []string{"C06", "C01"}, Masks: []api.EventMask{0, 0},
		Threads: [][]op{{{"create", "c1"}}, {{"create", "c2"}}}},
	{Name: "c06-two-events", Props: []string{"C06"}, Masks: []api.EventMask{0, 0},
		Threads: [][]op{{{"event:StartContainer", "c1"}}, {{"event:StartContainer", "c2"}}}},
	{Name: "c06-mixed-three", Props: []string{"C06"}, Masks: []api.EventMask{0, mk(api.Event_CREATE_CONTAINER), 0},
		Threads: [][]op{{{"create", "c1"}}, {{"update", "c2"}}, {{"event:PostCreateContainer", "c3"}}}},
	{Name: "c06-two-by-two", Props: []string{"C06"}, Masks: []api.EventMask{0, 0},
		Threads: [][]op{{{"create", "c1"}, {"stop", "c1"}}, {{"update", "c2"}, {"event:RemoveContainer", "c2"}}}},
	{Name: "c06-pod-events", Props: []string{"C06"}, Masks: []api.EventMask{0, 0},
		Threads: [][]op{{{"event:UpdatePodSandbox", "c1"}, {"event:RunPodSandbox", "c1"}}, {{"event:StopPodSandbox", "c2"}}}},
	{Name: "c06-three-by-two", Props: []string{"C06"}, Masks: []api.EventMask{0, mk(api.Event_CREATE_CONTAINER, api.Event_STOP_CONTAINER), 0},
		Threads: [][]op{{{"create", "c1"}, {"event:PostCreateContainer", "c1"}}, {{"create", "c2"}, {"stop", "c2"}}, {{"event:UpdatePodSandbox", "c3"}, {"update", "c3"}}}},
	{Name: "c06-four-callers", Props: []string{"C06"}, Masks: []api.EventMask{0, mk(api.Event_CREATE_CONTAINER, api.Event_UPDATE_CONTAINER), 0}, Deep: true, DeepBound: 5,
		Threads: [][]op{{{"create", "c1"}}, {{"update", "c2"}}, {{"stop", "c3"}}, {{"event:StartContainer", "c4"}}}},
	{Name: "c06-three-by-three", Props: []string{"C06"}, Masks: []api.EventMask{0, 0, mk(api.Event_STOP_CONTAINER, api.Event_START_CONTAINER)}, Deep: true, DeepBound: 4,
		Threads: [][]op{{{"create", "c1"}, {"event:StartContainer", "c1"}, {"stop", "c1"}}, {{"create", "c2"}, {"update", "c2"}, {"stop", "c2"}}, {{"event:RunPodSandbox", "c3"}, {"event:StartContainer", "c3"}, {"event:StopPodSandbox", "c3"}}}},
	{Name: "c01-collide-within", Props: []string{"C01"}, Masks: []api.EventMask{0, 0}, Collide: "within",
		Threads: [][]op{{{"create", "c1"}}, {{"create", "c2"}}}},
	{Name: "c01-collide-across", Props: []string{"C01", "C06"}, Masks: []api.EventMask{0, 0}, Collide: "across",
		Threads: [][]op{{{"create", "c1"}}, {{"create", "c2"}}}},
	{Name: "c01-collide-update", Props: []string{"C01"}, Masks: []api.EventMask{0, 0}, Collide: "update",
		Threads: [][]op{{{"update", "c1"}}, {{"update", "c2"}}, {{"stop", "c3"}}}},
	{Name: "c19-two-unsolicited-and-create", Props: []string{"C19", "C06"}, Masks: []api.EventMask{0, 0},
		Threads: [][]op{{{"unsol:0", "u1"}}, {{"unsol:1", "u2"}}, {{"create", "c1"}}}},
	{Name: "c19-unsolicited-vs-requests", Props: []string{"C19"}, Masks: []api.EventMask{0, 0},
		Threads: [][]op{{{"unsol:0", "u1"}, {"unsol:0", "u3"}}, {{"event:StartContainer", "c1"}}, {{"update", "c2"}}}},
	{Name: "c19-three-unsolicited", Props: []string{"C19"}, Masks: []api.EventMask{0, 0, 0},
		Threads: [][]op{{{"unsol:0", "u1"}}, {{"unsol:1", "u2"}}, {{"unsol:2", "u3"}}}},
	{Name: "c19-two-by-two-unsolicited-vs-two-requesters", Props: []string{"C19"}, Masks: []api.EventMask{0, 0}, Deep: true, DeepBound: 3,
		Threads: [][]op{{{"unsol:0", "u1"}, {"unsol:0", "u2"}}, {{"unsol:1", "u3"}, {"unsol:1", "u4"}}, {{"create", "c1"}, {"stop", "c1"}}, {{"event:StartContainer", "c2"}, {"update", "c2"}}}},
}

type callRec struct {
	Plugin int
	Tag    string
}

type opResult struct {
	Op      op
	Err     string
	Annot   map[string]string
	Updates []string
	Failed  []string
}

// world is the per-execution state of a scenario.
type world struct {
	sc        *scen
	mu        sync.Mutex // real mutex: the harness is also run free-running under -race
	log       []callRec
	results   map[int][]opResult
	inHandler int
	inUpdate  int
	overlap   []string
	updSeen   map[string]int
	yield     bool
}

func tagOf(method string, req any) string {
	switch r := req.(type) {
	case *api.CreateContainerRequest:
		return "create/" + r.Container.Id
	case *api.UpdateContainerRequest:
		return "update/" + r.Container.Id
	case *api.StopContainerRequest:
		return "stop/" + r.Container.Id
	case *api.UpdatePodSandboxRequest:
		return "event:UpdatePodSandbox/"
	case *api.StateChangeEvent:
		for _, lc := range calls {
			if lc.event == r.Event {
				return "event:" + lc.name + "/" + r.Container.GetId()
			}
		}
	}
	return method
}

func (w *world) handler(fk *seam.Fake, method string, req any) (any, error) {
	tag := tagOf(method, req)
	w.mu.Lock()
	w.log = append(w.log, callRec{fk.Pos, tag})
	w.inHandler++
	if w.inUpdate > 0 {
		w.overlap = append(w.overlap, fmt.Sprintf("handler %s of plugin %d entered while the runtime's update callback is running", tag, fk.Pos))
	}
	w.mu.Unlock()
	if w.yield {
		vsched.Yield("handler")
	}
	w.mu.Lock()
	w.inHandler--
	w.mu.Unlock()
	switch r := req.(type) {
	case *api.CreateContainerRequest:
		a := &api.ContainerAdjustment{}
		a.AddAnnotation(fmt.Sprintf("p%d", fk.Pos), r.Container.Id)
		switch w.sc.Collide {
		case "within":
			a.AddAnnotation("k", fmt.Sprintf("p%d-%s", fk.Pos, r.Container.Id))
		case "across":
			if fk.Pos == 0 && r.Container.Id == "c1" || fk.Pos == 1 && r.Container.Id == "c2" {
				a.AddAnnotation("k", fmt.Sprintf("p%d-%s", fk.Pos, r.Container.Id))
			}
		}
		return &api.CreateContainerResponse{Adjust: a}, nil
	case *api.UpdateContainerRequest:
		rsp := &api.UpdateContainerResponse{}
		if w.sc.Collide == "update" {
			if r.Container.Id == "c1" || fk.Pos == 0 {
				u := &api.ContainerUpdate{ContainerId: "cX"}
				u.SetLinuxMemoryLimit(int64(1000 + fk.Pos))
				rsp.Update = append(rsp.Update, u)
			}
		}
		return rsp, nil
	case *api.StopContainerRequest:
		rsp := &api.StopContainerResponse{}
		if w.sc.Collide == "update" && fk.Pos == 1 {
			u := &api.ContainerUpdate{ContainerId: "cX"}
			u.SetLinuxMemoryLimit(2001)
			rsp.Update = append(rsp.Update, u)
		}
		return rsp, nil
	}
	return okResp(method), nil
}

func (w *world) updateFn(us []*api.ContainerUpdate) ([]*api.ContainerUpdate, error) {
	w.mu.Lock()
	w.inUpdate++
	if w.inUpdate > 1 {
		w.overlap = append(w.overlap, "two unsolicited update callbacks run concurrently")
	}
	if w.inHandler > 0 {
		w.overlap = append(w.overlap, "the update callback runs while a plugin handler of another request is running")
	}
	for _, u := range us {
		w.updSeen[u.ContainerId]++
	}
	w.mu.Unlock()
	if w.yield {
		vsched.Yield("updateFn")
	}
	w.mu.Lock()
	w.inUpdate--
	w.mu.Unlock()
	// report every update as failed, so that the relay of the failed list is observable
	return us, nil
}

func updStr(us []*api.ContainerUpdate) []string {
	var out []string
	for _, u := range us {
		if u == nil {
			out = append(out, "<nil>")
			continue
		}
		out = append(out, fmt.Sprintf("%s:%d", u.ContainerId, u.GetLinux().GetResources().GetMemory().GetLimit().GetValue()))
	}
	return out
}

func (w *world) do(env *seam.Env, t int, o op) {
	r := opResult{Op: o}
	switch {
	case o.Kind == "create":
		rpl, err := env.R.CreateContainer(ctx, &api.CreateContainerRequest{Pod: pod, Container: ctr(o.ID)})
		if err != nil {
			r.Err = err.Error()
		}
		if rpl != nil {
			r.Annot = rpl.GetAdjust().GetAnnotations()
			r.Updates = updStr(rpl.Update)
		}
	case o.Kind == "update":
		rpl, err := env.R.UpdateContainer(ctx, &api.UpdateContainerRequest{Pod: pod, Container: ctr(o.ID), LinuxResources: &api.LinuxResources{}})
		if err != nil {
			r.Err = err.Error()
		}
		if rpl != nil {
			r.Updates = updStr(rpl.Update)
		}
	case o.Kind == "stop":
		rpl, err := env.R.StopContainer(ctx, &api.StopContainerRequest{Pod: pod, Container: ctr(o.ID)})
		if err != nil {
			r.Err = err.Error()
		}
		if rpl != nil {
			r.Updates = updStr(rpl.Update)
		}
	case strings.HasPrefix(o.Kind, "event:"):
		for _, lc := range calls {
			if "event:"+lc.name == o.Kind {
				if err := lc.call(env, o.ID); err != nil {
					r.Err = err.Error()
				}
			}
		}
	case strings.HasPrefix(o.Kind, "unsol:"):
		var p int
		fmt.Sscanf(o.Kind, "unsol:%d", &p)
		u := &api.ContainerUpdate{ContainerId: o.ID}
		u.SetLinuxMemoryLimit(int64(7000 + p))
		rpl, err := env.Fakes[p].VP.UpdateContainers(ctx, &api.UpdateContainersRequest{Update: []*api.ContainerUpdate{u}})
		if err != nil {
			r.Err = err.Error()
		}
		r.Failed = updStr(rpl.GetFailed())
	}
	w.mu.Lock()
	w.results[t] = append(w.results[t], r)
	w.mu.Unlock()
}

func (sc *scen) setup(yield bool) (*world, *seam.Env) {
	w := &world{sc: sc, results: map[int][]opResult{}, updSeen: map[string]int{}, yield: yield}
	env, err := seam.NewEnv()
	if err != nil {
		panic(err)
	}
	env.OnUpdate = func(_ context.Context, us []*api.ContainerUpdate) ([]*api.ContainerUpdate, error) {
		return w.updateFn(us)
	}
	// register in reverse order so that sorting matters
	for p := len(sc.Masks) - 1; p >= 0; p-- {
		m := sc.Masks[p]
		if m == 0 {
			m = api.ValidEvents
		}
		env.AddFake(seam.StdIdx(p), fmt.Sprintf("f%d", p), m, w.handler)
	}
	// AddFake numbers fakes by creation order; renumber by invocation position
	sort.Slice(env.Fakes, func(i, j int) bool { return env.Fakes[i].Idx < env.Fakes[j].Idx })
	for i, fk := range env.Fakes {
		fk.Pos = i
	}
	return w, env
}

func subscribed(sc *scen, p int, o op) bool {
	m := sc.Masks[p]
	if m == 0 {
		return true
	}
	var e api.Event
	switch {
	case o.Kind == "create":
		e = api.Event_CREATE_CONTAINER
	case o.Kind == "update":
		e = api.Event_UPDATE_CONTAINER
	case o.Kind == "stop":
		e = api.Event_STOP_CONTAINER
	default:
		for _, lc := range calls {
			if "event:"+lc.name == o.Kind {
				e = lc.event
			}
		}
	}
	return m.IsSet(e)
}

func opTag(o op) string {
	if o.Kind == "event:UpdatePodSandbox" {
		return "event:UpdatePodSandbox/"
	}
	return o.Kind + "/" + o.ID
}

// verdict evaluates the invariants on a finished execution.
func (w *world) verdict(status string) (viol []string, outcome string) {
	sc := w.sc
	if status != "ok" {
		viol = append(viol, "execution ended with "+status)
	}
	// exactly once, in index order, per request
	per := map[string][]int{}
	for _, c := range w.log {
		per[c.Tag] = append(per[c.Tag], c.Plugin)
	}
	for t, ops := range sc.Threads {
		for k, o := range ops {
			if strings.HasPrefix(o.Kind, "unsol:") {
				continue
			}
			var exp []int
			for p := range sc.Masks {
				if subscribed(sc, p, o) {
					exp = append(exp, p)
				}
			}
			expectFail := sc.Collide == "within" && o.Kind == "create" || sc.Collide == "update" && o.Kind == "update" && o.ID == "c1"
			got := per[opTag(o)]
			if status == "ok" && fmt.Sprint(got) != fmt.Sprint(exp) {
				viol = append(viol, fmt.Sprintf("request %s: plugins invoked %v, expected exactly once each in index order %v", opTag(o), got, exp))
			}
			if status != "ok" || len(w.results[t]) <= k {
				continue
			}
			r := w.results[t][k]
			if expectFail {
				if r.Err == "" {
					viol = append(viol, fmt.Sprintf("request %s: two plugins set the same item but the request succeeded (annotations %v updates %v)", opTag(o), r.Annot, r.Updates))
				}
				continue
			}
			if r.Err != "" {
				viol = append(viol, fmt.Sprintf("request %s failed: %s", opTag(o), r.Err))
				continue
			}
			if o.Kind == "create" {
				exp := map[string]string{}
				for p := range sc.Masks {
					if subscribed(sc, p, o) {
						exp[fmt.Sprintf("p%d", p)] = o.ID
					}
				}
				if sc.Collide == "across" {
					if o.ID == "c1" {
						exp["k"] = "p0-c1"
					} else {
						exp["k"] = "p1-c2"
					}
				}
				if fmt.Sprint(exp) != fmt.Sprint(r.Annot) {
					viol = append(viol, fmt.Sprintf("request %s: caller got annotations %v, expected the result of its own request %v", opTag(o), r.Annot, exp))
				}
			}
			if sc.Collide == "update" {
				var exp []string
				if o.Kind == "update" && o.ID == "c2" {
					exp = []string{"cX:1000", "<nil>"}
				}
				if o.Kind == "stop" {
					exp = []string{"cX:2001"}
				}
				if fmt.Sprint(exp) != fmt.Sprint(r.Updates) {
					viol = append(viol, fmt.Sprintf("request %s: caller got updates %v, expected %v", opTag(o), r.Updates, exp))
				}
			}
		}
	}
	// one common order of requests over all plugins
	seqs := map[int][]string{}
	for _, c := range w.log {
		seqs[c.Plugin] = append(seqs[c.Plugin], c.Tag)
	}
	for p := range sc.Masks {
		for q := p + 1; q < len(sc.Masks); q++ {
			pos := map[string]int{}
			for i, t := range seqs[q] {
				pos[t] = i
			}
			last := -1
			for _, t := range seqs[p] {
				if i, ok := pos[t]; ok {
					if i < last {
						viol = append(viol, fmt.Sprintf("plugins %d and %d observed the requests in different orders: %v vs %v", p, q, seqs[p], seqs[q]))
						break
					}
					last = i
				}
			}
		}
	}
	// unsolicited updates: once, unchanged, never concurrently
	for t, ops := range sc.Threads {
		for k, o := range ops {
			if !strings.HasPrefix(o.Kind, "unsol:") || status != "ok" || len(w.results[t]) <= k {
				continue
			}
			var p int
			fmt.Sscanf(o.Kind, "unsol:%d", &p)
			if n := w.updSeen[o.ID]; n != 1 {
				viol = append(viol, fmt.Sprintf("unsolicited update %s reached the runtime callback %d times", o.ID, n))
			}
			r := w.results[t][k]
			if exp := fmt.Sprintf("[%s:%d]", o.ID, 7000+p); r.Err != "" || fmt.Sprint(r.Failed) != exp {
				viol = append(viol, fmt.Sprintf("unsolicited update %s: plugin got failed list %v err %q, expected %s", o.ID, r.Failed, r.Err, exp))
			}
		}
	}
	viol = append(viol, w.overlap...)
	// outcome: the global order of handler calls
	var sb strings.Builder
	for _, c := range w.log {
		fmt.Fprintf(&sb, "%d:%s ", c.Plugin, c.Tag)
	}
	return viol, sb.String()
}

func (sc *scen) scenario() *vsched.Scenario {
	return &vsched.Scenario{
		Name: sc.Name,
		Cfg:  vsched.Config{Mode: vsched.Preemption, MaxSteps: 5000},
		New: func() (vsched.Body, func(ex *vsched.Exec) ([]string, string)) {
			w, env := sc.setup(true)
			body := func(s *vsched.Sched) {
				for t, ops := range sc.Threads {
					t, ops := t, ops
					s.Spawn(fmt.Sprintf("T%d", t), func() {
						for _, o := range ops {
							w.do(env, t, o)
						}
					})
				}
			}
			return body, func(ex *vsched.Exec) ([]string, string) {
				v, o := w.verdict(ex.Status)
				if ex.Status == "deadlock" {
					v = append(v, "blocked threads: "+strings.Join(ex.Blocked, ", "))
				}
				if ex.Status == "panic" {
					v = append(v, ex.Detail)
				}
				return v, o
			}
		},
	}
}

func serves(sc *scen, prop string) bool {
	for _, p := range sc.Props {
		if p == prop {
			return true
		}
	}
	return false
}

func sigOf(prop, scName string, msgs []string) string {
	kind := "invariant"
	for _, m := range msgs {
		switch {
		case strings.Contains(m, "deadlock"):
			kind = "deadlock"
		case strings.Contains(m, "different orders"):
			kind = "common-order"
		case strings.Contains(m, "exactly once"):
			kind = "exactly-once"
		case strings.Contains(m, "own request"):
			kind = "own-result"
		case strings.Contains(m, "same item but the request succeeded"):
			kind = "missed-conflict"
		case strings.Contains(m, "concurrently") || strings.Contains(m, "while"):
			kind = "overlap"
		case strings.Contains(m, "panic"):
			kind = "panic"
		}
	}
	return fmt.Sprintf("%s|sched|%s|%s", prop, scName, kind)
}

func engineSched(f *rep.Flags, res *rep.Result) {
	bound := 3
	if f.Thorough() {
		bound = 8
	}
	res.Rule = "every interleaving of the scenario's runtime threads (scheduling points: every lock operation of the adaptation and plugin objects, every plugin handler entry, the runtime's update callback) within the preemption bound; distinct = distinct global orders of handler invocations observed"
	res.Bounds["preemption_bound"] = bound
	res.Assumptions = append(res.Assumptions, "plugins are in-process fakes; handler entry is a scheduling point; memory-model effects below Go's sync primitives are not modelled (separate free-running -race pass)")
	var names []string
	deadline := time.Now().Add(20 * time.Minute)
	if !f.Thorough() {
		deadline = time.Now().Add(5 * time.Minute)
	}
	for i := range scens {
		sc := &scens[i]
		if !serves(sc, f.Prop) || (sc.Deep && !f.Thorough()) {
			continue
		}
		names = append(names, sc.Name)
		bound := bound
		if sc.Deep {
			bound = sc.DeepBound
			res.Bounds["preemption_bound_"+sc.Name] = bound
		}
		ex := &vsched.Explorer{Sc: sc.scenario(), Bound: bound, Shard: f.Shard, NShards: f.NShards, Deadline: deadline}
		if err := ex.Run(); err != nil {
			rep.Fatal(f, "%v", err)
		}
		res.Evaluations += int64(ex.Execs)
		res.States += int64(ex.PointsSeen)
		res.Transitions += int64(ex.Steps)
		res.Distinct += int64(len(ex.Outcomes))
		if ex.Capped {
			res.Exhaustive = false
			res.Notes = append(res.Notes, fmt.Sprintf("scenario %s: exploration cap reached after %d executions", sc.Name, ex.Execs))
		}
		for o, n := range ex.Outcomes {
			_ = o
			res.Outcome(sc.Name)
			_ = n
		}
		for _, s := range ex.Samples {
			res.Sample(map[string]any{"scenario": sc.Name, "choices": s})
		}
		for _, v := range ex.Violations {
			res.Add(sigOf(f.Prop, sc.Name, v.Messages), strings.Join(v.Messages, "\n  ")+"\n  trace: "+strings.Join(v.Trace, " "),
				map[string]any{"scenario": sc.Name, "choices": v.Choices})
		}
	}
	res.Bounds["scenarios"] = names
	// separate free-running pass of the same bodies (no scheduler)
	if f.Shard == 0 {
		res.Bounds["free_running_runs"] = freeRun(f, res, 20)
	}
}

// freeRun executes the scenario bodies without the scheduler (plain goroutines). Under the
// cooperative scheduler every hand-off is a happens-before edge, which blinds the race
// detector; this pass is what the -race build of the harness runs.
func freeRun(f *rep.Flags, res *rep.Result, reps int) int {
	n := 0
	for i := range scens {
		sc := &scens[i]
		if !serves(sc, f.Prop) {
			continue
		}
		for r := 0; r < reps; r++ {
			w, env := sc.setup(false)
			var wg sync.WaitGroup
			for t, ops := range sc.Threads {
				wg.Add(1)
				go func(t int, ops []op) {
					defer wg.Done()
					for _, o := range ops {
						w.do(env, t, o)
					}
				}(t, ops)
			}
			wg.Wait()
			if v, _ := w.verdict("ok"); len(v) > 0 {
				res.Add(sigOf(f.Prop, sc.Name, v)+"|free-running", strings.Join(v, "\n  "), map[string]any{"scenario": sc.Name, "free_running": true})
			}
			n++
		}
	}
	return n
}

func replaySched(f *rep.Flags, prop string, raw json.RawMessage) int {
	var r struct {
		Scenario string `json:"scenario"`
		Choices  []int  `json:"choices"`
	}
	if err := json.Unmarshal(raw, &r); err != nil {
		rep.Fatal(f, "%v", err)
	}
	for i := range scens {
		if scens[i].Name == r.Scenario {
			ex, v, o := scens[i].scenario().Replay(r.Choices)
			fmt.Printf("scenario %s status=%s steps=%d\noutcome: %s\n", r.Scenario, ex.Status, ex.Steps, o)
			for _, m := range v {
				fmt.Println("  ", m)
			}
			if len(v) > 0 {
				fmt.Printf("VIOLATION property=%s replay=%s\n", prop, f.Replay)
				return 1
			}
			fmt.Println("no violation")
			return 0
		}
	}
	rep.Fatal(f, "unknown scenario %q", r.Scenario)
	return 2
}
