// Harness "regrace" (supporting, free-running under the race detector): plugins
// that register and drop their connection at the same moment, many times.
// Looks for unsynchronised accesses in the runtime's registration path.
package main

import (
	"context"
	"fmt"
	"net"
	"time"

	"github.com/containerd/nri/pkg/adaptation"
	"github.com/containerd/nri/pkg/api"
	"github.com/containerd/nri/pkg/net/multiplex"
	"github.com/containerd/ttrpc"

	"nriverif/lib/full"
	"nriverif/lib/rep"
)

type nop struct{}

func (nop) Configure(context.Context, *api.ConfigureRequest) (*api.ConfigureResponse, error) {
	return &api.ConfigureResponse{}, nil
}
func (nop) Synchronize(_ context.Context, r *api.SynchronizeRequest) (*api.SynchronizeResponse, error) {
	return &api.SynchronizeResponse{More: r.More}, nil
}
func (nop) Shutdown(context.Context, *api.Empty) (*api.Empty, error) { return &api.Empty{}, nil }
func (nop) CreateContainer(context.Context, *api.CreateContainerRequest) (*api.CreateContainerResponse, error) {
	return &api.CreateContainerResponse{}, nil
}
func (nop) UpdateContainer(context.Context, *api.UpdateContainerRequest) (*api.UpdateContainerResponse, error) {
	return &api.UpdateContainerResponse{}, nil
}
func (nop) StopContainer(context.Context, *api.StopContainerRequest) (*api.StopContainerResponse, error) {
	return &api.StopContainerResponse{}, nil
}
func (nop) UpdatePodSandbox(context.Context, *api.UpdatePodSandboxRequest) (*api.UpdatePodSandboxResponse, error) {
	return &api.UpdatePodSandboxResponse{}, nil
}
func (nop) StateChange(context.Context, *api.StateChangeEvent) (*api.Empty, error) {
	return &api.Empty{}, nil
}

func main() {
	f := rep.ParseFlags()
	res := &rep.Result{Property: f.Prop, Engine: "regrace", Exhaustive: false, Supporting: true, Bounds: map[string]any{},
		Rule: "free-running under the race detector: raw protocol plugins send their registration and drop the connection after a delay swept over 0..400 microseconds (and while later handshake steps are in flight), repeated; supporting evidence"}
	adaptation.SetPluginRegistrationTimeout(2 * time.Second)
	adaptation.SetPluginRequestTimeout(2 * time.Second)
	rt, err := full.NewRuntime()
	if err != nil {
		rep.Fatal(f, "%v", err)
	}
	if err := rt.Start(); err != nil {
		rep.Fatal(f, "%v", err)
	}
	defer rt.Close()
	reps := 600
	if f.Thorough() {
		reps = 4000
	}
	for i := 0; i < reps; i++ {
		c, err := net.Dial("unix", rt.Sock)
		if err != nil {
			rep.Fatal(f, "%v", err)
		}
		m := multiplex.Multiplex(c)
		l, _ := m.Listen(multiplex.PluginServiceConn)
		srv, _ := ttrpc.NewServer()
		api.RegisterPluginService(srv, nop{})
		go srv.Serve(context.Background(), l)
		rc, _ := m.Open(multiplex.RuntimeServiceConn)
		cli := ttrpc.NewClient(rc)
		rtc := api.NewRuntimeClient(cli)
		go func() {
			ctx, cancel := context.WithTimeout(context.Background(), time.Second)
			defer cancel()
			rtc.RegisterPlugin(ctx, &api.RegisterPluginRequest{PluginName: fmt.Sprintf("racer-with-a-long-name-%d", i), PluginIdx: "10"})
		}()
		time.Sleep(time.Duration(i%40) * 10 * time.Microsecond)
		c.Close()
		m.Close()
		srv.Close()
		cli.Close()
		res.Evaluations++
	}
	// the runtime must still serve requests
	if err := rt.R.StartContainer(context.Background(), &api.StateChangeEvent{Pod: &api.PodSandbox{Id: "p"}, Container: &api.Container{Id: "c"}}); err != nil {
		res.Add(f.Prop+"|regrace|runtime-broken", fmt.Sprintf("an event after %d abandoned registrations failed: %v", reps, err), nil)
	}
	res.States, res.Transitions, res.Distinct = res.Evaluations, res.Evaluations, 2
	res.Sample(map[string]any{"plugin": "registers as 10-racer-… and closes its connection 0-400 µs later", "repetitions": reps})
	res.Write(f)
}
