// Harness "gen": bounded-exhaustive exploration of the OCI spec generator
// (pkg/runtime-tools/generate) over adjustments x base specs x every
// iteration order of the maps the generator ranges over (T-map), against
// the reference model refgen written below. Decides C13.
package main

import (
	"encoding/json"
	"fmt"
	"os"
	"reflect"
	"sort"
	"strings"

	"github.com/containerd/nri/pkg/api"
	nrigen "github.com/containerd/nri/pkg/runtime-tools/generate"
	"github.com/containerd/nri/pkg/zzverif/vsched"
	rspec "github.com/opencontainers/runtime-spec/specs-go"
	ocigen "github.com/opencontainers/runtime-tools/generate"

	"nriverif/lib/items"
	"nriverif/lib/rep"
	"nriverif/ref/merge"
)

// Case: one adjustment (as model ops) applied to one base spec.
type Case struct {
	Family string     `json:"family"`
	Base   string     `json:"base"`
	Ops    []merge.Op `json:"ops"`
	Mounts []string   `json:"mounts,omitempty"` // extra mount destinations added (mount-order family)
	Focus  []string   `json:"focus"`
}

func describe(c *Case) string {
	var sb strings.Builder
	fmt.Fprintf(&sb, "%s base=%s:", c.Family, c.Base)
	for _, op := range c.Ops {
		if op.Remove {
			fmt.Fprintf(&sb, " -%s", op.Item)
		} else {
			fmt.Fprintf(&sb, " %s=%d", op.Item, op.Val)
		}
	}
	if len(c.Mounts) > 0 {
		fmt.Fprintf(&sb, " mounts+%v", c.Mounts)
	}
	return sb.String()
}

const origVal = 5

func baseContainer(name string) *api.Container {
	m := map[merge.Item]int{}
	var l map[string][]int
	if name == "dense" {
		// both keys of every keyed family present (neighbours in every list)
		for _, k := range items.Kinds {
			if k.Keyed && k.Name != "cdi" && k.Name != "rlimit" {
				m[merge.Item{Kind: k.Name, Key: k.Keys[0]}] = origVal
				m[merge.Item{Kind: k.Name, Key: k.Keys[1]}] = origVal + 1
			}
		}
		c := items.BuildContainer("c0", m, nil)
		// limits of the very types the adjustments request are already there
		for i, k := range items.K("rlimit").Keys {
			c.Rlimits = append(c.Rlimits, &api.POSIXRlimit{Type: k, Hard: uint64(origVal + i), Soft: uint64(origVal + i)})
		}
		return c
	}
	if name == "populated" {
		l = map[string][]int{}
		for _, k := range items.Kinds {
			switch {
			case k.Append:
				l[k.Name] = []int{origVal, origVal + 1}
			case k.Name == "cdi":
			case k.Name == "rlimit":
				l[k.Name] = []int{origVal}
			case k.Keyed:
				// first key present, second absent
				m[merge.Item{Kind: k.Name, Key: k.Keys[0]}] = origVal
			default:
				m[merge.Item{Kind: k.Name}] = origVal
			}
		}
	}
	c := items.BuildContainer("c0", m, l)
	if name == "populated" {
		for _, d := range []string{"/a/b/c", "/b", "/a", "/a/b"} {
			c.Mounts = append(c.Mounts, &api.Mount{Destination: d, Source: "/src/v7", Type: "bind", Options: []string{"rbind"}})
		}
	}
	return c
}

func baseSpec(name string) *rspec.Spec {
	s := items.SpecFromContainer(baseContainer(name))
	if name == "populated" {
		// things NRI never touches: the frame
		s.Hostname = "host"
		s.Process.Capabilities = &rspec.LinuxCapabilities{Bounding: []string{"CAP_CHOWN"}}
		s.Process.NoNewPrivileges = true
		s.Root = &rspec.Root{Path: "/rootfs", Readonly: true}
		s.Linux.Namespaces = []rspec.LinuxNamespace{{Type: "pid"}, {Type: "network", Path: "/ns/net"}}
		s.Linux.MaskedPaths = []string{"/proc/kcore"}
		s.Linux.Sysctl = map[string]string{"net.ipv4.ip_forward": "1"}
	}
	return s
}

type cdiRec struct{ names []string }

func runGen(c *Case, adj *api.ContainerAdjustment) (*rspec.Spec, *cdiRec, error) {
	spec := baseSpec(c.Base)
	rec := &cdiRec{}
	g := ocigen.NewFromSpec(spec)
	ng := nrigen.SpecGenerator(&g,
		nrigen.WithBlockIOResolver(func(cl string) (*rspec.LinuxBlockIO, error) { return items.ResolveBlockIO(cl), nil }),
		nrigen.WithRdtResolver(func(cl string) (*rspec.LinuxIntelRdt, error) { return items.ResolveRdt(cl), nil }),
		nrigen.WithCDIDeviceInjector(func(_ *rspec.Spec, names []string) error {
			rec.names = append(rec.names, names...)
			return nil
		}),
	)
	err := ng.Adjust(adj)
	return ng.Config, rec, err
}

func buildAdj(c *Case) *api.ContainerAdjustment {
	a := items.BuildAdjustment(c.Ops)
	if a == nil {
		a = &api.ContainerAdjustment{}
	}
	for i, d := range c.Mounts {
		a.AddMount(&api.Mount{Destination: d, Source: fmt.Sprintf("/src/v%d", 40+i), Type: "bind", Options: []string{"rbind"}})
	}
	return a
}

// ---- reference model (refgen) ---------------------------------------

// expected computes the items of the resulting spec: removals first, a set
// wins over a removal of the same key, ordered families are appended.
func expected(c *Case, base *rspec.Spec) (map[merge.Item]int, map[string][]int) {
	cont, lists, _ := items.ReadSpec(base)
	for _, op := range c.Ops {
		if op.Remove {
			delete(cont, op.Item)
		}
	}
	for _, op := range c.Ops {
		if op.Remove {
			continue
		}
		k := items.K(op.Item.Kind)
		switch {
		case k.GenIgnores:
		case k.Append, op.Item.Kind == "rlimit":
			lists[op.Item.Kind] = append(lists[op.Item.Kind], op.Val)
		case op.Item.Kind == "cdi":
			lists["cdi"] = append(lists["cdi"], items.CDIVal(op.Item.Key))
		case op.Item.Kind == "mem.limit" && op.Val == 0:
			// documented: a zero memory limit is not applied
		default:
			cont[op.Item] = op.Val
		}
	}
	for i, d := range c.Mounts {
		cont[merge.Item{Kind: "mount", Key: d}] = 40 + i
	}
	return cont, lists
}

// allowed JSON path prefixes that an adjustment of the given kinds may change.
func allowedPaths(c *Case) []string {
	var out []string
	add := func(p ...string) { out = append(out, p...) }
	for _, op := range c.Ops {
		k := op.Item.Kind
		switch {
		case k == "annotation":
			add("annotations")
		case k == "env":
			add("process.env")
		case k == "args":
			add("process.args")
		case strings.HasPrefix(k, "hook."):
			add("hooks")
		case k == "rlimit":
			add("process.rlimits")
		case k == "oomscoreadj":
			add("process.oomScoreAdj")
		case k == "mount":
			add("mounts")
		case k == "device":
			add("linux.devices", "linux.resources.devices")
		case k == "cgroupspath":
			add("linux.cgroupsPath")
		case k == "mem.limit":
			add("linux.resources.memory.limit", "linux.resources.memory.swap")
		case strings.HasPrefix(k, "mem."):
		case k == "cpu.shares":
			add("linux.resources.cpu.shares")
		case k == "cpu.quota":
			add("linux.resources.cpu.quota")
		case k == "cpu.period":
			add("linux.resources.cpu.period")
		case k == "cpu.rtruntime":
			add("linux.resources.cpu.realtimeRuntime")
		case k == "cpu.rtperiod":
			add("linux.resources.cpu.realtimePeriod")
		case k == "cpu.cpus":
			add("linux.resources.cpu.cpus")
		case k == "cpu.mems":
			add("linux.resources.cpu.mems")
		case k == "hugepage":
			add("linux.resources.hugepageLimits")
		case k == "unified":
			add("linux.resources.unified")
		case k == "pids":
			add("linux.resources.pids")
		case k == "blockio":
			add("linux.resources.blockIO")
		case k == "rdt":
			add("linux.intelRdt")
		case k == "cdi":
		}
	}
	if len(c.Mounts) > 0 {
		add("mounts")
	}
	return out
}

// flatten turns a JSON document into path -> value (arrays kept whole).
func flatten(prefix string, v any, out map[string]string) {
	switch x := v.(type) {
	case map[string]any:
		if len(x) == 0 {
			return // empty objects carry nothing
		}
		for k, c := range x {
			p := k
			if prefix != "" {
				p = prefix + "." + k
			}
			flatten(p, c, out)
		}
	case nil:
	default:
		b, _ := json.Marshal(x)
		if s := string(b); s != "[]" && s != "null" {
			out[prefix] = s
		}
	}
}

func flatSpec(s *rspec.Spec) map[string]string {
	b, _ := json.Marshal(s)
	var v any
	json.Unmarshal(b, &v)
	out := map[string]string{}
	flatten("", v, out)
	return out
}

func frameViolations(c *Case, base, res *rspec.Spec) []string {
	fb, fr := flatSpec(base), flatSpec(res)
	allowed := allowedPaths(c)
	ok := func(p string) bool {
		for _, a := range allowed {
			if p == a || strings.HasPrefix(p, a+".") || strings.HasPrefix(a, p+".") {
				return true
			}
		}
		return false
	}
	var out []string
	for p, v := range fb {
		if fr[p] != v && !ok(p) {
			out = append(out, fmt.Sprintf("%s changed from %s to %s", p, v, fr[p]))
		}
	}
	for p, v := range fr {
		if _, had := fb[p]; !had && !ok(p) {
			out = append(out, fmt.Sprintf("%s appeared (%s)", p, v))
		}
	}
	sort.Strings(out)
	return out
}

func mountOrderViolations(s *rspec.Spec) []string {
	var out []string
	for i := range s.Mounts {
		for j := i + 1; j < len(s.Mounts); j++ {
			di, dj := strings.TrimRight(s.Mounts[i].Destination, "/"), strings.TrimRight(s.Mounts[j].Destination, "/")
			if strings.HasPrefix(di, dj+"/") {
				out = append(out, fmt.Sprintf("mount %s (index %d) comes before its parent %s (index %d)", di, i, dj, j))
			}
		}
	}
	return out
}

// ---- exploration of one case under every map order ------------------

type chooser struct {
	prefix []int
	ns     []int
	taken  []int
}

func (ch *chooser) choose(n int, label string) int {
	i := len(ch.ns)
	ch.ns = append(ch.ns, n)
	c := 0
	if i < len(ch.prefix) {
		c = ch.prefix[i]
		if c >= n {
			c = 0
		}
	}
	ch.taken = append(ch.taken, c)
	return c
}

type stats struct {
	res                 *rep.Result
	cases, runs, states int64
	orders              int64
}

func checkCase(prop string, c *Case, st *stats) {
	st.cases++
	type fnd struct{ sig, msg string }
	var fs []fnd
	add := func(sig, msg string, a ...any) {
		fs = append(fs, fnd{prop + "|" + sig, fmt.Sprintf(msg, a...)})
	}
	var firstJSON string
	var firstChoices []int
	var firstCont map[merge.Item]int
	// depth-first over the choice vectors of this case
	var stack [][]int
	stack = append(stack, nil)
	for len(stack) > 0 {
		prefix := stack[len(stack)-1]
		stack = stack[:len(stack)-1]
		ch := &chooser{prefix: prefix}
		vsched.SetInlineChooser(ch.choose)
		adj := buildAdj(c)
		var spec *rspec.Spec
		var rec *cdiRec
		var err error
		func() {
			defer func() {
				if p := recover(); p != nil {
					err = fmt.Errorf("panic: %v", p)
				}
			}()
			spec, rec, err = runGen(c, adj)
		}()
		vsched.SetInlineChooser(nil)
		st.runs++
		st.states += int64(len(ch.ns) + 1)
		for i := len(prefix); i < len(ch.ns); i++ {
			for alt := 1; alt < ch.ns[i]; alt++ {
				np := append(append([]int(nil), ch.taken[:i]...), alt)
				stack = append(stack, np)
			}
		}
		if err != nil {
			add("generator-error", "Adjust failed: %v (map order choices %v)", err, ch.taken)
			break
		}
		base := baseSpec(c.Base)
		expC, expL := expected(c, base)
		gotC, gotL, probs := items.ReadSpec(spec)
		for _, n := range rec.names {
			gotL["cdi"] = append(gotL["cdi"], items.CDIVal(n))
		}
		var diffs []string
		kinds := map[string]bool{}
		for it, ev := range expC {
			gv, ok := gotC[it]
			if !ok {
				diffs = append(diffs, fmt.Sprintf("%s missing (expected %d)", it, ev))
				kinds[it.Kind] = true
			} else if items.Norm(it.Kind, gv) != items.Norm(it.Kind, ev) {
				diffs = append(diffs, fmt.Sprintf("%s=%d (expected %d)", it, gv, ev))
				kinds[it.Kind] = true
			}
		}
		for it, gv := range gotC {
			if _, ok := expC[it]; !ok {
				diffs = append(diffs, fmt.Sprintf("%s=%d unexpected", it, gv))
				kinds[it.Kind] = true
			}
		}
		for k := range expL {
			if fmt.Sprint(expL[k]) != fmt.Sprint(gotL[k]) {
				diffs = append(diffs, fmt.Sprintf("%s list %v (expected %v)", k, gotL[k], expL[k]))
				kinds[k] = true
			}
		}
		for k := range gotL {
			if _, ok := expL[k]; !ok && len(gotL[k]) > 0 {
				diffs = append(diffs, fmt.Sprintf("%s list %v unexpected", k, gotL[k]))
				kinds[k] = true
			}
		}
		diffs = append(diffs, probs...)
		if len(diffs) > 0 {
			sort.Strings(diffs)
			var ks []string
			for k := range kinds {
				ks = append(ks, k)
			}
			sort.Strings(ks)
			add("wrong-result|"+pattern(c, ks), "result differs from 'removals first, a set wins, named values as requested' (map order choices %v): %s", ch.taken, strings.Join(diffs, "; "))
		}
		if touches(c, "device") {
			// every device the adjustment adds comes with a cgroup rule allowing exactly that device
			if spec.Linux != nil {
				for it, ev := range expC {
					if it.Kind != "device" {
						continue
					}
					set := false
					for _, op := range c.Ops {
						if op.Item == it && !op.Remove {
							set = true
						}
					}
					if !set {
						continue
					}
					want := items.Device(it.Key, ev)
					found := false
					var rules []string
					if spec.Linux.Resources != nil {
						for _, r := range spec.Linux.Resources.Devices {
							mj, mn := int64(-1), int64(-1)
							if r.Major != nil {
								mj = *r.Major
							}
							if r.Minor != nil {
								mn = *r.Minor
							}
							rules = append(rules, fmt.Sprintf("%v %s %d:%d %s", r.Allow, r.Type, mj, mn, r.Access))
							if r.Allow && r.Type == want.Type && mj == want.Major && mn == want.Minor {
								found = true
							}
						}
					}
					if !found {
						add("device-rule", "device %s (%s %d:%d) was added but no cgroup rule allows exactly that device; rules: %v (map order choices %v)", it.Key, want.Type, want.Major, want.Minor, rules, ch.taken)
					}
				}
			}
		}
		if fv := frameViolations(c, base, spec); len(fv) > 0 {
			add("frame", "parts of the spec that the adjustment does not name changed: %s", strings.Join(fv, "; "))
		}
		if len(c.Mounts) > 0 || touches(c, "mount") {
			if mv := mountOrderViolations(spec); len(mv) > 0 {
				add("mount-order", "%s", strings.Join(mv, "; "))
			}
		}
		b, _ := json.Marshal(spec)
		if firstJSON == "" {
			firstJSON, firstChoices, firstCont = string(b), ch.taken, gotC
		} else if string(b) != firstJSON {
			dk := map[string]bool{}
			for it, v := range firstCont {
				if gv, ok := gotC[it]; !ok || gv != v {
					dk[it.Kind] = true
				}
			}
			for it := range gotC {
				if _, ok := firstCont[it]; !ok {
					dk[it.Kind] = true
				}
			}
			var ks []string
			for k := range dk {
				ks = append(ks, k)
			}
			sort.Strings(ks)
			add("nondeterministic|"+pattern(c, ks), "the same inputs give different specs under map iteration orders %v and %v", firstChoices, ch.taken)
		}
		if len(fs) > 0 {
			break
		}
	}
	st.orders += 0
	for _, f := range fs {
		st.res.Add(f.sig, f.msg+"\n  case: "+describe(c), c)
	}
}

// pattern describes, for the kinds that differ, the action patterns the
// adjustment applies to keys of that kind (S = set, R = remove, in list order).
func pattern(c *Case, kinds []string) string {
	var parts []string
	for _, k := range kinds {
		byKey := map[string]string{}
		for _, op := range c.Ops {
			if op.Item.Kind != k {
				continue
			}
			if op.Remove {
				byKey[op.Item.Key] += "R"
			} else {
				byKey[op.Item.Key] += "S"
			}
		}
		pats := map[string]bool{}
		for _, p := range byKey {
			if len(p) > 1 {
				pats[p] = true // only mixed patterns are interesting
			}
		}
		var ps []string
		for p := range pats {
			ps = append(ps, p)
		}
		sort.Strings(ps)
		parts = append(parts, k+":"+strings.Join(ps, ","))
	}
	return strings.Join(parts, "/")
}

func touches(c *Case, kind string) bool {
	for _, op := range c.Ops {
		if op.Item.Kind == kind {
			return true
		}
	}
	return false
}

// ---- case generation -------------------------------------------------

func keyItems(k *items.Kind) []merge.Item {
	if k.Keyed {
		return []merge.Item{{Kind: k.Name, Key: k.Keys[0]}, {Kind: k.Name, Key: k.Keys[1]}}
	}
	return []merge.Item{{Kind: k.Name}}
}

// per-key action alphabet for removable keyed families
var acts = [][]string{{}, {"S"}, {"R"}, {"R", "S"}, {"S", "R"}}

func opsOf(it merge.Item, act []string, v int) []merge.Op {
	var ops []merge.Op
	for _, a := range act {
		if a == "S" {
			ops = append(ops, merge.Op{Item: it, Val: v})
		} else {
			ops = append(ops, merge.Op{Item: it, Remove: true})
		}
	}
	return ops
}

func famCombos(kind string) [][]merge.Op {
	k := items.K(kind)
	its := keyItems(k)
	var out [][]merge.Op
	if k.Name == "args" {
		// the args marker ("" as first element) belongs to the plugin->runtime
		// protocol and is resolved by the adaptation; the generator never sees it
		return [][]merge.Op{{}, {{Item: its[0], Val: 21}}}
	}
	if k.Removable {
		for a0 := range acts {
			for a1 := range acts {
				o0, o1 := opsOf(its[0], acts[a0], 21), opsOf(its[1], acts[a1], 22)
				out = append(out, append(append([]merge.Op{}, o0...), o1...))
				if len(o0) > 0 && len(o1) > 0 {
					out = append(out, append(append([]merge.Op{}, o1...), o0...))
					if len(o0) == 2 && len(o1) == 2 {
						// interleaved list orders
						out = append(out, []merge.Op{o0[0], o1[0], o0[1], o1[1]}, []merge.Op{o0[0], o1[0], o1[1], o0[1]})
					}
				}
			}
		}
		return out
	}
	vals := []int{21}
	if !k.Bool && !k.Append && k.Name != "cdi" && k.Name != "unified" && k.Name != "cpu.cpus" && k.Name != "cpu.mems" && k.Name != "blockio" && k.Name != "rdt" && k.Name != "cgroupspath" {
		vals = []int{21, 0, 1}
	}
	out = append(out, nil)
	for _, v := range vals {
		out = append(out, []merge.Op{{Item: its[0], Val: v}})
		if len(its) > 1 {
			out = append(out, []merge.Op{{Item: its[1], Val: v}}, []merge.Op{{Item: its[0], Val: v}, {Item: its[1], Val: v + 1}}, []merge.Op{{Item: its[1], Val: v + 1}, {Item: its[0], Val: v}})
		}
	}
	return out
}

func generate(f *rep.Flags, bounds map[string]any, emit func(*Case)) {
	bases := []string{"minimal", "populated", "dense"}
	n := map[string]int{}
	out := func(c *Case) { n[c.Family]++; emit(c) }
	var kinds []string
	for _, k := range items.Kinds {
		if k.InAdjust {
			kinds = append(kinds, k.Name)
		}
	}
	// single family
	for _, b := range bases {
		for _, k := range kinds {
			for _, ops := range famCombos(k) {
				out(&Case{Family: "single", Base: b, Ops: ops, Focus: []string{k}})
			}
		}
	}
	// pairs of families
	for _, b := range bases[:2] {
		for i, k1 := range kinds {
			for _, k2 := range kinds[i+1:] {
				c1, c2 := famCombos(k1), famCombos(k2)
				if !f.Thorough() {
					// quick: every combo of the first family with the "rich" combos of the second
					if len(c2) > 6 {
						c2 = append(append([][]merge.Op{}, c2[1:4]...), c2[len(c2)-3:]...)
					}
					if len(c1) > 12 {
						c1 = append(append([][]merge.Op{}, c1[1:7]...), c1[len(c1)-6:]...)
					}
				}
				for _, o1 := range c1 {
					for _, o2 := range c2 {
						if len(o1) == 0 || len(o2) == 0 {
							continue
						}
						out(&Case{Family: "pair", Base: b, Ops: append(append([]merge.Op{}, o1...), o2...), Focus: []string{k1, k2}})
					}
				}
			}
		}
	}
	// a device and a mount at the SAME path (the second mount key is the first device's path), on the
	// base in which both exist: the two kinds are independent of each other
	for _, o1 := range famCombos("device") {
		for _, o2 := range famCombos("mount") {
			if len(o1) == 0 || len(o2) == 0 {
				continue
			}
			out(&Case{Family: "pair", Base: "dense", Ops: append(append([]merge.Op{}, o1...), o2...), Focus: []string{"device", "mount"}})
			out(&Case{Family: "pair", Base: "dense", Ops: append(append([]merge.Op{}, o2...), o1...), Focus: []string{"mount", "device"}})
		}
	}
	// everything at once
	for _, b := range bases[:2] {
		for variant := 0; variant < 4; variant++ {
			var ops []merge.Op
			for _, k := range kinds {
				cs := famCombos(k)
				ops = append(ops, cs[(len(cs)-1-variant*3+4*len(cs))%len(cs)]...)
			}
			out(&Case{Family: "all", Base: b, Ops: ops, Focus: []string{"all"}})
		}
	}
	// mount ordering: every ordered selection of up to 3 (thorough 4) new destinations
	dests := []string{"/a/b/c/d", "/a/x", "/c", "/a/b/y", "/a/bb", "/c/d/e"}
	maxSel := 3
	if f.Thorough() {
		maxSel = 4
	}
	var sel []string
	used := map[string]bool{}
	var rec func()
	rec = func() {
		if len(sel) > 0 {
			for _, b := range bases[:2] {
				for _, rm := range []bool{false, true} {
					c := &Case{Family: "mountorder", Base: b, Mounts: append([]string(nil), sel...), Focus: []string{"mount"}}
					if rm {
						if b != "populated" {
							continue
						}
						c.Ops = []merge.Op{{Item: merge.Item{Kind: "mount", Key: "/a"}, Remove: true}}
					}
					out(c)
				}
			}
		}
		if len(sel) == maxSel {
			return
		}
		for _, d := range dests {
			if !used[d] {
				used[d] = true
				sel = append(sel, d)
				rec()
				sel = sel[:len(sel)-1]
				used[d] = false
			}
		}
	}
	rec()
	for k, v := range n {
		bounds["cases_"+k] = v
	}
	bounds["bases"] = bases
	bounds["map_orders"] = "every permutation of every map the generator ranges over (maps of <= 4 keys), via T-map"
}

func main() {
	f := rep.ParseFlags()
	res := &rep.Result{Property: f.Prop, Engine: "gen", Exhaustive: true,
		Rule:        "every case = (base spec, adjustment built from the per-family action alphabet {nothing,set,remove,remove+set,set+remove} over a present and an absent key, scalar values {21,0,1}, pairs of families, mount-order selections), each run under every iteration order of the generator's maps; non-trivial = the adjustment names at least one item; distinct by construction",
		Assumptions: []string{"env entries without '=' are malformed and not generated", "block I/O and RDT classes are resolved by harness-provided resolvers"}}
	st := &stats{res: res}
	if f.Replay != "" {
		b, err := os.ReadFile(f.Replay)
		if err != nil {
			rep.Fatal(f, "%v", err)
		}
		var w struct {
			Property string `json:"property"`
			Replay   Case   `json:"replay"`
		}
		if err := json.Unmarshal(b, &w); err != nil {
			rep.Fatal(f, "%v", err)
		}
		checkCase(w.Property, &w.Replay, st)
		fmt.Println("case:", describe(&w.Replay))
		for _, x := range res.Findings {
			fmt.Printf("FINDING %s: %s\n", x.Signature, x.Message)
		}
		if len(res.Findings) > 0 {
			fmt.Printf("VIOLATION property=%s replay=%s\n", w.Property, f.Replay)
			os.Exit(1)
		}
		fmt.Println("no violation")
		return
	}
	bounds := map[string]any{}
	res.Bounds = bounds
	nontriv := int64(0)
	k := 0
	idx := 0
	generate(f, bounds, func(c *Case) {
		idx++
		if idx%f.NShards != f.Shard {
			return
		}
		checkCase(f.Prop, c, st)
		if len(c.Ops) > 0 || len(c.Mounts) > 0 {
			nontriv++
		}
		k++
		if k%5000 == 1 {
			res.Sample(c)
		}
	})
	res.Evaluations = st.runs
	res.States = st.states
	res.Transitions = st.runs
	res.Distinct = nontriv
	bounds["cases"] = st.cases
	bounds["generator_runs"] = st.runs
	_ = reflect.DeepEqual
	res.Write(f)
}
