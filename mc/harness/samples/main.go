// Harness "samples": the device-injector and ulimit-adjuster sample plugins,
// built from the working tree and launched by the real runtime as
// pre-installed plugins; every assignment of annotation payloads to the
// container-scoped / pod-scoped / bare keys is sent through
// Adaptation.CreateContainer and compared with the reference model
// "refanno" (most-specific-key lookup, field by field conversion).
// Decides C20.
package main

import (
	"context"
	"encoding/json"
	"fmt"
	"io"
	"os"
	"os/exec"
	"path/filepath"
	"strings"
	"time"

	"github.com/containerd/nri/pkg/adaptation"
	"github.com/containerd/nri/pkg/api"
	"github.com/sirupsen/logrus"

	"nriverif/lib/rep"
)

const (
	devKey = "devices.nri.io"
	mntKey = "mounts.nri.io"
	cdiKey = "cdi-devices.nri.io"
	ulKey  = "ulimits.nri.containerd.io"
)

// payload alphabets: index 0 absent, 1 valid A, 2 valid B, 3 malformed. One valid payload of each family
// starts, without a leading newline, on an indented line (YAML is indentation-sensitive: the value must
// reach the decoder as it was annotated), the other with a newline at column 0.
var payloads = map[string][]string{
	devKey: {"", `  - path: /dev/a
    type: c
    major: 10
    minor: 20
    gid: 7
`, `
- path: /dev/b1
  type: b
  major: 1
  minor: 0
  file_mode: 384
  uid: 3
- path: /dev/b2
  type: c
  major: 2
  minor: 3
  gid: 9
- path: /dev/b3
  type: c
  major: 4
  minor: 5
`, `- path: [unterminated`},
	mntKey: {"", `  - source: /src/a
    destination: /dst/a
    type: bind
`, `
- source: /src/b1
  destination: /dst/b1
  type: bind
  options: [rbind, ro]
- source: tmpfs
  destination: /dst/b2
  type: tmpfs
  options: [nosuid]
- source: /src/b3
  destination: /dst/b3
`, `just a string, not a list`},
	cdiKey: {"", `["vendor.com/dev=a"]`, `  - vendor.com/dev=b1
  - other.org/class=b2
`, `{"not": "a list"}`},
	ulKey: {"", `
- type: RLIMIT_NOFILE
  hard: 1024
  soft: 512
`, `  - type: memlock
    hard: 65536
    soft: 65536
  - type: rlimit_core
    hard: 0
    soft: 0
`, `- type: [`},
}

type expAdj struct {
	fail    bool
	devices []string
	mounts  []string
	cdi     []string
	rlimits []string
}

// reference conversions (field by field, from the documented annotation formats)
func refDevices(p int) []string {
	switch p {
	case 1:
		return []string{"/dev/a c 10:20 mode=unset uid=unset gid=7"}
	case 2:
		return []string{"/dev/b1 b 1:0 mode=384 uid=3 gid=unset", "/dev/b2 c 2:3 mode=unset uid=unset gid=9", "/dev/b3 c 4:5 mode=unset uid=unset gid=unset"}
	}
	return nil
}
func refMounts(p int) []string {
	switch p {
	case 1:
		return []string{"/src/a -> /dst/a bind []"}
	case 2:
		return []string{"/src/b1 -> /dst/b1 bind [rbind ro]", "tmpfs -> /dst/b2 tmpfs [nosuid]", "/src/b3 -> /dst/b3  []"}
	}
	return nil
}
func refCDI(p int) []string {
	switch p {
	case 1:
		return []string{"vendor.com/dev=a"}
	case 2:
		return []string{"vendor.com/dev=b1", "other.org/class=b2"}
	}
	return nil
}
func refRlimits(p int) []string {
	switch p {
	case 1:
		return []string{"RLIMIT_NOFILE 1024/512"}
	case 2:
		return []string{"RLIMIT_MEMLOCK 65536/65536", "RLIMIT_CORE 0/0"}
	}
	return nil
}

func optU32(o *api.OptionalUInt32) string {
	if o == nil {
		return "unset"
	}
	return fmt.Sprint(o.Value)
}

func gotAdj(a *api.ContainerAdjustment) expAdj {
	var g expAdj
	for _, d := range a.GetLinux().GetDevices() {
		mode := "unset"
		if d.FileMode != nil {
			mode = fmt.Sprint(d.FileMode.Value)
		}
		g.devices = append(g.devices, fmt.Sprintf("%s %s %d:%d mode=%s uid=%s gid=%s", d.Path, d.Type, d.Major, d.Minor, mode, optU32(d.Uid), optU32(d.Gid)))
	}
	for _, m := range a.GetMounts() {
		g.mounts = append(g.mounts, fmt.Sprintf("%s -> %s %s %v", m.Source, m.Destination, m.Type, m.Options))
	}
	for _, c := range a.GetCDIDevices() {
		g.cdi = append(g.cdi, c.Name)
	}
	for _, r := range a.GetRlimits() {
		g.rlimits = append(g.rlimits, fmt.Sprintf("%s %d/%d", r.Type, r.Hard, r.Soft))
	}
	return g
}

// slots of one annotation family: which key carries which payload
type slots struct {
	Key   string         `json:"key"`
	Slots map[string]int `json:"slots"` // "container.c", "container.c1", "container.other", "pod", "bare" -> payload index
}

type Case struct {
	Family  string  `json:"family"`
	Ctr     string  `json:"container"`
	Fams    []slots `json:"annotations"`
	Ulimit  string  `json:"ulimit_payload,omitempty"` // explicit ulimit payload for the container's own key
	UlimitX string  `json:"ulimit_expect,omitempty"`  // "fail" or the expected rlimit string
}

func (c *Case) annotations() map[string]string {
	a := map[string]string{"unrelated.io/key": "x"}
	for _, f := range c.Fams {
		for s, p := range f.Slots {
			if p == 0 {
				continue
			}
			k := f.Key
			if s != "bare" {
				k += "/" + s
			}
			a[k] = payloads[f.Key][p]
		}
	}
	if c.Ulimit != "" {
		a[ulKey+"/container."+c.Ctr] = c.Ulimit
	}
	return a
}

// refanno: the payload of the most specific key naming this container
func (c *Case) expected() expAdj {
	var e expAdj
	for _, f := range c.Fams {
		sel := 0
		if f.Key == ulKey {
			sel = f.Slots["container."+c.Ctr] // container scope only
		} else {
			for _, s := range []string{"container." + c.Ctr, "pod", "bare"} {
				if p := f.Slots[s]; p != 0 {
					sel = p
					break
				}
			}
		}
		if sel == 3 {
			e.fail = true
		}
		switch f.Key {
		case devKey:
			e.devices = refDevices(sel)
		case mntKey:
			e.mounts = refMounts(sel)
		case cdiKey:
			e.cdi = refCDI(sel)
		case ulKey:
			e.rlimits = refRlimits(sel)
		}
	}
	if c.Ulimit != "" {
		if c.UlimitX == "fail" {
			e.fail = true
		} else {
			e.rlimits = strings.Split(c.UlimitX, ";")
		}
	}
	return e
}

func (c *Case) String() string {
	var parts []string
	for _, f := range c.Fams {
		var s []string
		for _, k := range []string{"container.c", "container.c1", "container.other", "pod", "bare"} {
			if p := f.Slots[k]; p != 0 {
				s = append(s, fmt.Sprintf("%s=%s", k, []string{"", "A", "B", "malformed"}[p]))
			}
		}
		parts = append(parts, f.Key+"{"+strings.Join(s, ",")+"}")
	}
	if c.Ulimit != "" {
		parts = append(parts, "ulimit="+strings.TrimSpace(strings.ReplaceAll(c.Ulimit, "\n", " ")))
	}
	return fmt.Sprintf("container %q %s", c.Ctr, strings.Join(parts, " "))
}

var slotNames = []string{"container.c", "container.c1", "container.other", "pod", "bare"}

func generate(thorough bool) []*Case {
	var out []*Case
	ctrs := []string{"c", "c1", "other"}
	// every assignment of payloads to the five keys of one family
	for _, key := range []string{devKey, mntKey, cdiKey, ulKey} {
		n := 1
		for range slotNames {
			n *= 4
		}
		for code := 0; code < n; code++ {
			sl := map[string]int{}
			x := code
			for _, s := range slotNames {
				sl[s] = x % 4
				x /= 4
			}
			for ci, ctr := range ctrs {
				if !thorough && (code+ci)%3 != 0 {
					continue // quick: every assignment with one of the three container names (rotating)
				}
				out = append(out, &Case{Family: "single", Ctr: ctr, Fams: []slots{{key, sl}}})
			}
		}
	}
	// two families with independent scopes
	type opt struct {
		scope string
		p     int
	}
	var opts []opt
	opts = append(opts, opt{"", 0})
	for _, s := range []string{"container", "pod", "bare"} {
		for _, p := range []int{1, 3} {
			opts = append(opts, opt{s, p})
		}
	}
	fams := []string{devKey, cdiKey, mntKey, ulKey}
	for i := range fams {
		for j := i + 1; j < len(fams); j++ {
			for _, a := range opts {
				for _, b := range opts {
					for _, ctr := range ctrs {
						mk := func(key string, o opt) slots {
							sl := map[string]int{}
							if o.p != 0 {
								s := o.scope
								if s == "container" {
									s = "container." + ctr
								}
								sl[s] = o.p
							}
							return slots{key, sl}
						}
						out = append(out, &Case{Family: "pair", Ctr: ctr, Fams: []slots{mk(fams[i], a), mk(fams[j], b)}})
					}
				}
			}
		}
	}
	if thorough {
		// three and all four families at once, independent scopes
		mk := func(key string, o opt, ctr string) slots {
			sl := map[string]int{}
			if o.p != 0 {
				s := o.scope
				if s == "container" {
					s = "container." + ctr
				}
				sl[s] = o.p
			}
			return slots{key, sl}
		}
		var rec func(sel []int, from int)
		rec = func(sel []int, from int) {
			if len(sel) >= 3 {
				idx := make([]int, len(sel))
				for {
					for _, ctr := range ctrs {
						var fs []slots
						for k, fi := range sel {
							fs = append(fs, mk(fams[fi], opts[idx[k]], ctr))
						}
						out = append(out, &Case{Family: fmt.Sprintf("%d-families", len(sel)), Ctr: ctr, Fams: fs})
					}
					k := 0
					for k < len(idx) {
						idx[k]++
						if idx[k] < len(opts) {
							break
						}
						idx[k] = 0
						k++
					}
					if k == len(idx) {
						break
					}
				}
			}
			for i := from; i < len(fams); i++ {
				rec(append(append([]int(nil), sel...), i), i+1)
			}
		}
		rec(nil, 0)
	}
	// ulimit payload variants: spellings x (soft, hard)
	for _, sp := range []struct{ in, norm string }{{"NOFILE", "RLIMIT_NOFILE"}, {"nofile", "RLIMIT_NOFILE"}, {"RLIMIT_NOFILE", "RLIMIT_NOFILE"}, {"rlimit_nofile", "RLIMIT_NOFILE"}, {"Rlimit_NoFile", "RLIMIT_NOFILE"}, {"RLIMIT_nofile", "RLIMIT_NOFILE"}, {"RLIMIT_NoFile", "RLIMIT_NOFILE"}, {"rlimit_NOFILE", "RLIMIT_NOFILE"}, {"BOGUS", ""}, {"RLIMIT_", ""}, {"", ""}} {
		const max64 = ^uint64(0)
		for _, sh := range [][2]uint64{{1, 2}, {2, 2}, {3, 2}, {0, 0}, {0, max64}, {max64, max64}, {max64, 65536}, {1<<63 + 1, 0}, {1 << 63, 1<<63 - 1}, {1<<63 - 1, 1 << 63}, {65536, max64}} {
			pl := fmt.Sprintf("- type: %q\n  soft: %d\n  hard: %d\n", sp.in, sh[0], sh[1])
			x := "fail"
			if sp.norm != "" && sh[1] >= sh[0] {
				x = fmt.Sprintf("%s %d/%d", sp.norm, sh[1], sh[0])
			}
			out = append(out, &Case{Family: "ulimit", Ctr: "c", Ulimit: pl, UlimitX: x})
		}
	}
	// several entries, the offending one (hard < soft, or an unknown type) at every position
	good := []string{"- type: memlock\n  soft: 10\n  hard: 10\n", "- type: RLIMIT_CORE\n  soft: 0\n  hard: 7\n", "- type: nproc\n  soft: 3\n  hard: 4\n"}
	goodX := []string{"RLIMIT_MEMLOCK 10/10", "RLIMIT_CORE 7/0", "RLIMIT_NPROC 4/3"}
	for _, bad := range []string{"- type: nofile\n  soft: 5\n  hard: 2\n", "- type: bogus\n  soft: 1\n  hard: 2\n"} {
		for n := 2; n <= 3; n++ {
			for pos := 0; pos < n; pos++ {
				pl := ""
				g := 0
				for k := 0; k < n; k++ {
					if k == pos {
						pl += bad
					} else {
						pl += good[g]
						g++
					}
				}
				out = append(out, &Case{Family: "ulimit", Ctr: "c", Ulimit: pl, UlimitX: "fail"})
			}
		}
	}
	out = append(out, &Case{Family: "ulimit", Ctr: "c", Ulimit: good[0] + good[1] + good[2], UlimitX: goodX[0] + ";" + goodX[1] + ";" + goodX[2]})
	return out
}

func build(repo, plugin, out string) error {
	cmd := exec.Command("go", "build", "-o", out, ".")
	cmd.Dir = filepath.Join(repo, "plugins", plugin)
	cmd.Env = append(os.Environ(), "GOFLAGS=-mod=mod", "GOPROXY=off", "GOSUMDB=off", "GOTOOLCHAIN=local", "CGO_ENABLED=0")
	if o, err := cmd.CombinedOutput(); err != nil {
		return fmt.Errorf("building %s: %v\n%s", plugin, err, o)
	}
	return nil
}

func main() {
	f := rep.ParseFlags()
	logrus.SetOutput(io.Discard)
	res := &rep.Result{Property: f.Prop, Engine: "samples", Exhaustive: true, Bounds: map[string]any{},
		Rule:        "for each annotation family (devices, mounts, CDI devices, ulimits) every assignment of {absent, valid A, valid B, malformed} to the keys {container.c, container.c1, container.other, pod scope, bare key} (4^5) for the container names c, c1 (c is its prefix), other; every pair of families with independent scopes and payload validity; ulimit type spellings x (soft, hard) orders; distinct = (annotations, container name) cases; non-trivial = at least one annotation present",
		Assumptions: []string{"the plugins are built from the working tree and launched by the real runtime as pre-installed plugins (real processes, real sockets)", "the reference expectations are written from the documented annotation formats"}}
	repo := os.Getenv("VERIF_REPO")
	if repo == "" {
		repo = "/repo"
	}
	base := os.Getenv("VERIF_SCRATCH")
	if base == "" {
		base = "/var/tmp"
	}
	dir, err := os.MkdirTemp(base, "nrisamples-")
	if err != nil {
		rep.Fatal(f, "%v", err)
	}
	defer os.RemoveAll(dir)
	pdir := filepath.Join(dir, "plugins")
	os.MkdirAll(pdir, 0o755)
	if err := build(repo, "device-injector", filepath.Join(pdir, "10-device-injector")); err != nil {
		rep.Fatal(f, "%v", err)
	}
	if err := build(repo, "ulimit-adjuster", filepath.Join(pdir, "20-ulimit-adjuster")); err != nil {
		rep.Fatal(f, "%v", err)
	}
	adaptation.SetPluginRegistrationTimeout(10 * time.Second)
	adaptation.SetPluginRequestTimeout(10 * time.Second)
	r, err := adaptation.New("verif-runtime", "1.0",
		func(ctx context.Context, cb adaptation.SyncCB) error { _, err := cb(ctx, nil, nil); return err },
		func(context.Context, []*api.ContainerUpdate) ([]*api.ContainerUpdate, error) { return nil, nil },
		adaptation.WithPluginPath(pdir), adaptation.WithPluginConfigPath(filepath.Join(dir, "conf.d")), adaptation.WithDisabledExternalConnections())
	if err != nil {
		rep.Fatal(f, "%v", err)
	}
	if err := r.Start(); err != nil {
		rep.Fatal(f, "runtime start: %v", err)
	}
	defer r.Stop()
	if n := adaptation.VerifActiveNames(r); len(n) != 2 {
		rep.Fatal(f, "expected both sample plugins to be active, got %v", n)
	}
	var cases []*Case
	if f.Replay != "" {
		b, _ := os.ReadFile(f.Replay)
		var w struct {
			Replay Case `json:"replay"`
		}
		json.Unmarshal(b, &w)
		cases = []*Case{&w.Replay}
	} else {
		cases = generate(f.Thorough())
	}
	nontriv := int64(0)
	for i, c := range cases {
		ann := c.annotations()
		if len(ann) > 1 {
			nontriv++
		}
		rpl, err := r.CreateContainer(context.Background(), &api.CreateContainerRequest{
			Pod:       &api.PodSandbox{Id: "pod0", Name: "pod0", Annotations: ann},
			Container: &api.Container{Id: fmt.Sprintf("id%d", i), PodSandboxId: "pod0", Name: c.Ctr},
		})
		res.Evaluations++
		res.States++
		res.Transitions += 2
		exp := c.expected()
		var v []string
		kind := ""
		if exp.fail {
			if err == nil {
				kind = "malformed-accepted"
				v = append(v, fmt.Sprintf("the selected annotation is malformed / invalid but the request succeeded with adjustment %+v", gotAdj(rpl.GetAdjust())))
			} else if rpl != nil {
				kind = "partial-adjustment"
				v = append(v, "the request failed but a response was returned")
			}
		} else if err != nil {
			kind = "spurious-failure"
			v = append(v, fmt.Sprintf("no annotation selected for this container is malformed, yet the request failed: %v", err))
		} else {
			g := gotAdj(rpl.GetAdjust())
			chk := func(name string, e, g []string) {
				if fmt.Sprint(e) != fmt.Sprint(g) {
					if kind == "" {
						kind = "wrong-" + name
					}
					v = append(v, fmt.Sprintf("%s: got %v, expected %v", name, g, e))
				}
			}
			chk("devices", exp.devices, g.devices)
			chk("mounts", exp.mounts, g.mounts)
			chk("cdi", exp.cdi, g.cdi)
			chk("rlimits", exp.rlimits, g.rlimits)
		}
		if len(v) > 0 {
			res.Add("C20|"+kind+"|"+c.Family, strings.Join(v, "\n  ")+"\n  case: "+c.String(), c)
		}
		if i%2000 == 17 {
			res.Sample(map[string]any{"case": c.String(), "expected": fmt.Sprintf("%+v", exp)})
		}
	}
	res.Distinct = nontriv
	res.Bounds["cases"] = len(cases)
	if f.Replay != "" {
		for _, x := range res.Findings {
			fmt.Printf("FINDING %s: %s\n", x.Signature, x.Message)
		}
		if len(res.Findings) > 0 {
			fmt.Printf("VIOLATION property=%s replay=%s\n", f.Prop, f.Replay)
			r.Stop()
			os.RemoveAll(dir)
			os.Exit(1)
		}
		fmt.Println("no violation")
		return
	}
	res.Write(f)
}
