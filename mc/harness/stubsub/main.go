// Harness "stubsub": the plugin stub derives its subscription from the
// handler interfaces a plugin implements and dispatches requests to them.
// One generated Go type per subset of the 13 handler interfaces (quick: the
// subsets of size <= 3 and >= 11 plus 128 mixed ones; thorough: all 8191),
// each with and without a Configure handler. Decides C15.
package main

import (
	"context"
	"encoding/json"
	"errors"
	"fmt"
	"io"
	"os"
	"strings"
	"time"

	"github.com/containerd/nri/pkg/adaptation"
	"github.com/containerd/nri/pkg/api"
	"github.com/containerd/nri/pkg/stub"
	"github.com/sirupsen/logrus"

	"nriverif/lib/full"
	"nriverif/lib/rep"
)

var ctx = context.Background()

type call struct {
	method string
	pod    *api.PodSandbox
	ctr    *api.Container
	res    [2]*api.LinuxResources
}

// rec is shared by the mixins of one plugin object.
type rec struct {
	calls   []call
	failErr error // nil: handlers succeed
	confRet api.EventMask
	confErr error
	confArg [3]string
}

var errHandler = errors.New("handler error 4711")

// the handler errors tried: nothing, a plain error, and errors of the handler's OWN making that wrap
// a context error (its backend call timed out / a helper was cancelled) while the request itself is live
var handlerErrs = []error{
	nil,
	errHandler,
	fmt.Errorf("backend call: %w", context.DeadlineExceeded),
	fmt.Errorf("helper: %w", context.Canceled),
}

func (r *rec) ev(m string, pod *api.PodSandbox, ctr *api.Container) error {
	r.calls = append(r.calls, call{method: m, pod: pod, ctr: ctr})
	if r.failErr != nil {
		return r.failErr
	}
	return nil
}

var (
	retAdjust  = &api.ContainerAdjustment{Annotations: map[string]string{"from": "create-handler"}}
	// (the handlers' updates also name the container of the request itself, twice in one list, and
	// carry nothing else: whatever a handler returns is the runtime's business, not the stub's)
	retUpdateC = []*api.ContainerUpdate{{ContainerId: "upd-by-create"}}
	retUpdateU = []*api.ContainerUpdate{{ContainerId: "upd-by-update"}, {ContainerId: "ctr-0815"}, {ContainerId: "ctr-0815", IgnoreFailure: true}}
	retUpdateS = []*api.ContainerUpdate{{ContainerId: "ctr-0815"}, {ContainerId: "upd-by-stop"}, {}}
)

type mRunPod struct{ r *rec }

func (m mRunPod) RunPodSandbox(_ context.Context, p *api.PodSandbox) error {
	return m.r.ev("RunPodSandbox", p, nil)
}

type mStopPod struct{ r *rec }

func (m mStopPod) StopPodSandbox(_ context.Context, p *api.PodSandbox) error {
	return m.r.ev("StopPodSandbox", p, nil)
}

type mRemovePod struct{ r *rec }

func (m mRemovePod) RemovePodSandbox(_ context.Context, p *api.PodSandbox) error {
	return m.r.ev("RemovePodSandbox", p, nil)
}

type mCreateContainer struct{ r *rec }

func (m mCreateContainer) CreateContainer(_ context.Context, p *api.PodSandbox, c *api.Container) (*api.ContainerAdjustment, []*api.ContainerUpdate, error) {
	if err := m.r.ev("CreateContainer", p, c); err != nil {
		return nil, nil, err
	}
	return retAdjust, retUpdateC, nil
}

type mPostCreateContainer struct{ r *rec }

func (m mPostCreateContainer) PostCreateContainer(_ context.Context, p *api.PodSandbox, c *api.Container) error {
	return m.r.ev("PostCreateContainer", p, c)
}

type mStartContainer struct{ r *rec }

func (m mStartContainer) StartContainer(_ context.Context, p *api.PodSandbox, c *api.Container) error {
	return m.r.ev("StartContainer", p, c)
}

type mPostStartContainer struct{ r *rec }

func (m mPostStartContainer) PostStartContainer(_ context.Context, p *api.PodSandbox, c *api.Container) error {
	return m.r.ev("PostStartContainer", p, c)
}

type mUpdateContainer struct{ r *rec }

func (m mUpdateContainer) UpdateContainer(_ context.Context, p *api.PodSandbox, c *api.Container, lr *api.LinuxResources) ([]*api.ContainerUpdate, error) {
	m.r.calls = append(m.r.calls, call{method: "UpdateContainer", pod: p, ctr: c, res: [2]*api.LinuxResources{lr}})
	if m.r.failErr != nil {
		return nil, m.r.failErr
	}
	return retUpdateU, nil
}

type mPostUpdateContainer struct{ r *rec }

func (m mPostUpdateContainer) PostUpdateContainer(_ context.Context, p *api.PodSandbox, c *api.Container) error {
	return m.r.ev("PostUpdateContainer", p, c)
}

type mStopContainer struct{ r *rec }

func (m mStopContainer) StopContainer(_ context.Context, p *api.PodSandbox, c *api.Container) ([]*api.ContainerUpdate, error) {
	if err := m.r.ev("StopContainer", p, c); err != nil {
		return nil, err
	}
	return retUpdateS, nil
}

type mRemoveContainer struct{ r *rec }

func (m mRemoveContainer) RemoveContainer(_ context.Context, p *api.PodSandbox, c *api.Container) error {
	return m.r.ev("RemoveContainer", p, c)
}

type mUpdatePod struct{ r *rec }

func (m mUpdatePod) UpdatePodSandbox(_ context.Context, p *api.PodSandbox, over, lr *api.LinuxResources) error {
	m.r.calls = append(m.r.calls, call{method: "UpdatePodSandbox", pod: p, res: [2]*api.LinuxResources{over, lr}})
	if m.r.failErr != nil {
		return m.r.failErr
	}
	return nil
}

type mPostUpdatePod struct{ r *rec }

func (m mPostUpdatePod) PostUpdatePodSandbox(_ context.Context, p *api.PodSandbox) error {
	return m.r.ev("PostUpdatePodSandbox", p, nil)
}

type mConfigure struct{ r *rec }

func (m mConfigure) Configure(_ context.Context, config, runtime, version string) (api.EventMask, error) {
	m.r.confArg = [3]string{config, runtime, version}
	return m.r.confRet, m.r.confErr
}

// event i+1 <-> handler method name, in bit order
var evNames = []string{"RunPodSandbox", "StopPodSandbox", "RemovePodSandbox", "CreateContainer", "PostCreateContainer", "StartContainer", "PostStartContainer",
	"UpdateContainer", "PostUpdateContainer", "StopContainer", "RemoveContainer", "UpdatePodSandbox", "PostUpdatePodSandbox"}

const allMask = int32(1<<13 - 1)

var (
	thePod  = &api.PodSandbox{Id: "pod-4711", Name: "the-pod", Uid: "uid-1"}
	theCtr  = &api.Container{Id: "ctr-0815", PodSandboxId: "pod-4711", Name: "the-ctr"}
	theRes  = &api.LinuxResources{Cpu: &api.LinuxCPU{Cpus: "3-5"}}
	theOver = &api.LinuxResources{Memory: &api.LinuxMemory{Limit: api.Int64(int64(77))}}
)

var res *rep.Result
var prop string

func fail(sig, f string, a ...any) {
	res.Add(prop+"|"+sig, fmt.Sprintf(f, a...), map[string]any{"signature": sig})
}

func names(mask int32) string {
	var out []string
	for i, n := range evNames {
		if mask>>uint(i)&1 == 1 {
			out = append(out, n)
		}
	}
	return "{" + strings.Join(out, ",") + "}"
}

// (1) subscription
func checkSubscription(t mkType, thorough bool) {
	r := &rec{}
	st, err := stub.New(t.mk(r), stub.WithPluginName("sub"), stub.WithPluginIdx("10"))
	if err != nil {
		fail("new-rejected", "stub.New rejected a plugin implementing %s: %v", names(t.mask), err)
		return
	}
	if got := int32(stub.VerifEvents(st)); got != t.mask {
		fail("implemented-mask", "plugin implements %s but the stub derived %s", names(t.mask), names(got))
	}
	var ms []int32
	if thorough {
		for m := int32(0); m <= allMask; m++ {
			ms = append(ms, m)
		}
		ms = append(ms, 1<<13, 1<<20|t.mask, -1)
	} else {
		ms = append(ms, 0, t.mask, allMask, 1<<13, 1<<20|t.mask)
		for i := 0; i < 13; i++ {
			ms = append(ms, 1<<uint(i), t.mask&^(1<<uint(i)), t.mask|1<<uint(i))
		}
		ms = append(ms, 0) // again, after narrower subscriptions: the stub must not remember them
	}
	for _, m := range ms {
		r.confRet, r.confErr = api.EventMask(m), nil
		rpl, err := stub.VerifConfigure(st, ctx, &api.ConfigureRequest{Config: "cfg", RuntimeName: "rt", RuntimeVersion: "1", RegistrationTimeout: 5000, RequestTimeout: 2000})
		res.Evaluations++
		res.Transitions++
		var want int32
		wantErr := false
		switch {
		case !t.conf || m == 0:
			want = t.mask
		case m&^t.mask == 0:
			want = m
		default:
			wantErr = true
		}
		if wantErr {
			if err == nil {
				fail("unhandled-event-accepted", "plugin implementing %s asked for %s and was subscribed to %s", names(t.mask), names(m), names(rpl.GetEvents()))
			}
			continue
		}
		if err != nil {
			fail("valid-subscription-rejected", "plugin implementing %s (configure handler: %v) asked for mask 0x%x and was rejected: %v", names(t.mask), t.conf, m, err)
			continue
		}
		if rpl.Events != want {
			fail("wrong-subscription", "plugin implementing %s (configure handler: %v) asked for mask 0x%x and was subscribed to %s, expected %s", names(t.mask), t.conf, m, names(rpl.Events), names(want))
		}
		if t.conf && r.confArg != [3]string{"cfg", "rt", "1"} {
			fail("configure-args", "Configure handler got %v", r.confArg)
		}
	}
	if t.conf {
		r.confRet, r.confErr = 0, errors.New("configuration refused")
		if _, err := stub.VerifConfigure(st, ctx, &api.ConfigureRequest{}); err == nil || !strings.Contains(err.Error(), "configuration refused") {
			fail("configure-error-lost", "the Configure handler's error was not returned (err=%v)", err)
		}
	}
}

// (2) dispatch
func checkDispatch(t mkType) {
	for _, herr := range handlerErrs {
		failing := herr != nil
		r := &rec{failErr: herr}
		st, err := stub.New(t.mk(r), stub.WithPluginName("sub"), stub.WithPluginIdx("10"))
		if err != nil {
			return
		}
		svc := st.(api.PluginService)
		for i, name := range evNames {
			r.calls = nil
			has := t.mask>>uint(i)&1 == 1
			var gotErr error
			var adjust *api.ContainerAdjustment
			var updates []*api.ContainerUpdate
			switch name {
			case "CreateContainer":
				rpl, err := svc.CreateContainer(ctx, &api.CreateContainerRequest{Pod: thePod, Container: theCtr})
				gotErr, adjust, updates = err, rpl.GetAdjust(), rpl.GetUpdate()
			case "UpdateContainer":
				rpl, err := svc.UpdateContainer(ctx, &api.UpdateContainerRequest{Pod: thePod, Container: theCtr, LinuxResources: theRes})
				gotErr, updates = err, rpl.GetUpdate()
			case "StopContainer":
				rpl, err := svc.StopContainer(ctx, &api.StopContainerRequest{Pod: thePod, Container: theCtr})
				gotErr, updates = err, rpl.GetUpdate()
			case "UpdatePodSandbox":
				_, gotErr = svc.UpdatePodSandbox(ctx, &api.UpdatePodSandboxRequest{Pod: thePod, OverheadLinuxResources: theOver, LinuxResources: theRes})
			default:
				_, gotErr = svc.StateChange(ctx, &api.StateChangeEvent{Event: api.Event(i + 1), Pod: thePod, Container: theCtr})
			}
			res.Evaluations++
			res.Transitions++
			sfx := name
			if !has {
				if len(r.calls) != 0 {
					fail("dispatch-to-wrong-handler|"+sfx, "plugin %s has no %s handler but %v was invoked", names(t.mask), name, r.calls[0].method)
				}
				if gotErr != nil {
					fail("unhandled-event-error|"+sfx, "event %s without handler returned %v", name, gotErr)
				}
				continue
			}
			if len(r.calls) != 1 {
				fail("not-exactly-once|"+sfx, "plugin %s: %s invoked %d handlers", names(t.mask), name, len(r.calls))
				continue
			}
			c := r.calls[0]
			if c.method != name {
				fail("dispatch-to-wrong-handler|"+sfx, "plugin %s: %s was delivered to the %s handler", names(t.mask), name, c.method)
				continue
			}
			podOnly := strings.HasSuffix(name, "PodSandbox")
			if c.pod != thePod || (!podOnly && c.ctr != theCtr) {
				fail("wrong-arguments|"+sfx, "%s handler got pod %v / container %v", name, c.pod.GetId(), c.ctr.GetId())
			}
			if name == "UpdateContainer" && c.res[0] != theRes {
				fail("wrong-arguments|"+sfx, "UpdateContainer handler got resources %v", c.res[0])
			}
			if name == "UpdatePodSandbox" && (c.res[0] != theOver || c.res[1] != theRes) {
				fail("wrong-arguments|"+sfx, "UpdatePodSandbox handler got resources %v / %v", c.res[0], c.res[1])
			}
			if failing {
				if gotErr != herr {
					fail("handler-error-lost|"+sfx, "the %s handler failed but the stub returned %v", name, gotErr)
				}
				continue
			}
			if gotErr != nil {
				fail("spurious-error|"+sfx, "%s returned %v", name, gotErr)
			}
			switch name {
			case "CreateContainer":
				if adjust != retAdjust || len(updates) != 1 || updates[0] != retUpdateC[0] {
					fail("result-changed|"+sfx, "CreateContainer returned adjust %v updates %v", adjust, updates)
				}
			case "UpdateContainer":
				if len(updates) != 3 || updates[0] != retUpdateU[0] || updates[1] != retUpdateU[1] || updates[2] != retUpdateU[2] {
					fail("result-changed|"+sfx, "UpdateContainer returned updates %v", updates)
				}
			case "StopContainer":
				if len(updates) != 3 || updates[0] != retUpdateS[0] || updates[1] != retUpdateS[1] || updates[2] != retUpdateS[2] {
					fail("result-changed|"+sfx, "StopContainer returned updates %v", updates)
				}
			}
		}
	}
}

// (3) full stack: what the runtime delivers equals the subset
func checkFullStack(ts []mkType) int {
	adaptation.SetPluginRegistrationTimeout(5 * time.Second)
	rt, err := full.NewRuntime()
	if err != nil {
		fail("machinery", "%v", err)
		return 0
	}
	defer rt.Close()
	if err := rt.Start(); err != nil {
		fail("machinery", "%v", err)
		return 0
	}
	n := 0
	for _, t := range ts {
		r := &rec{confRet: 0}
		st, err := stub.New(t.mk(r), stub.WithPluginName(fmt.Sprintf("fs%04x", t.mask)), stub.WithPluginIdx("10"), stub.WithSocketPath(rt.Sock), stub.WithOnClose(func() {}))
		if err != nil {
			fail("new-rejected", "%v", err)
			continue
		}
		if err := st.Start(ctx); err != nil {
			fail("full-stack-start", "plugin %s failed to start: %v", names(t.mask), err)
			continue
		}
		want := fmt.Sprintf("10-fs%04x", t.mask)
		ok := false
		for deadline := time.Now().Add(5 * time.Second); time.Now().Before(deadline) && !ok; time.Sleep(time.Millisecond) {
			for _, nm := range adaptation.VerifActiveNames(rt.R) {
				if nm == want {
					ok = true
				}
			}
		}
		if !ok {
			fail("full-stack-start", "plugin %s did not become active", names(t.mask))
			st.Stop()
			continue
		}
		var got int32
		evt := &api.StateChangeEvent{Pod: thePod, Container: theCtr}
		cl := func(i int, f func() error) {
			before := len(r.calls)
			if err := f(); err != nil {
				fail("full-stack-event-error", "%s: %v", evNames[i], err)
			}
			for _, c := range r.calls[before:] {
				if c.method != evNames[i] {
					fail("dispatch-to-wrong-handler|"+evNames[i]+"|full-stack", "%s was delivered to the %s handler", evNames[i], c.method)
				}
				if c.pod.GetId() != thePod.Id {
					fail("wrong-arguments|"+evNames[i]+"|full-stack", "handler got pod %q", c.pod.GetId())
				}
			}
			if len(r.calls) > before {
				got |= 1 << uint(i)
			}
		}
		R := rt.R
		cl(0, func() error { return R.RunPodSandbox(ctx, evt) })
		cl(1, func() error { return R.StopPodSandbox(ctx, evt) })
		cl(2, func() error { return R.RemovePodSandbox(ctx, evt) })
		cl(3, func() error {
			_, err := R.CreateContainer(ctx, &api.CreateContainerRequest{Pod: thePod, Container: theCtr})
			return err
		})
		cl(4, func() error { return R.PostCreateContainer(ctx, evt) })
		cl(5, func() error { return R.StartContainer(ctx, evt) })
		cl(6, func() error { return R.PostStartContainer(ctx, evt) })
		cl(7, func() error {
			_, err := R.UpdateContainer(ctx, &api.UpdateContainerRequest{Pod: thePod, Container: theCtr, LinuxResources: theRes})
			return err
		})
		cl(8, func() error { return R.PostUpdateContainer(ctx, evt) })
		cl(9, func() error {
			_, err := R.StopContainer(ctx, &api.StopContainerRequest{Pod: thePod, Container: theCtr})
			return err
		})
		cl(10, func() error { return R.RemoveContainer(ctx, evt) })
		cl(11, func() error {
			_, err := R.UpdatePodSandbox(ctx, &api.UpdatePodSandboxRequest{Pod: thePod})
			return err
		})
		cl(12, func() error { return R.PostUpdatePodSandbox(ctx, evt) })
		if got != t.mask {
			fail("full-stack-subscription", "plugin implementing %s received %s through a real connection", names(t.mask), names(got))
		}
		st.Stop()
		for deadline := time.Now().Add(3 * time.Second); time.Now().Before(deadline); time.Sleep(time.Millisecond) {
			if len(adaptation.VerifActiveNames(rt.R)) == 0 {
				break
			}
			R.StartContainer(ctx, evt) // pruning happens on requests
		}
		res.Evaluations += 13
		res.Transitions += 13
		n++
	}
	return n
}

type emptyPlugin struct{}

func main() {
	f := rep.ParseFlags()
	prop = f.Prop
	logrus.SetOutput(io.Discard)
	logrus.SetLevel(logrus.PanicLevel)
	res = &rep.Result{Property: f.Prop, Engine: "stubsub", Exhaustive: true, Bounds: map[string]any{},
		Rule:        "one Go type per subset S of the 13 handler interfaces, each with and without a Configure handler; (1) Configure with requested masks {0, S, all, S minus/plus each bit, every single bit, invalid high bits} (thorough: every mask 0..8191) on one long-lived stub per type; (2) every event through the PluginService methods with distinctive arguments, handlers succeeding and failing; (3) a sample of types through a real connection to a real runtime; (4) Synchronize split into 1..3 messages of 0..2 pods and 0..2 containers, twice on one stub, handler succeeding and failing; distinct = (type, mask) and (type, event, outcome) combinations, all non-trivial",
		Assumptions: []string{"Configure is called through an export wrapper that supplies the result channel Start normally creates"}}
	if f.Replay != "" {
		fmt.Println("replay: re-running the deterministic enumeration")
	}
	n := 0
	for i, t := range genTypes {
		if i%f.NShards != f.Shard {
			continue
		}
		checkSubscription(t, f.Thorough())
		checkDispatch(t)
		res.States++
		n++
	}
	if f.Shard == 0 {
		if _, err := stub.New(emptyPlugin{}, stub.WithPluginName("e"), stub.WithPluginIdx("10")); err == nil {
			fail("empty-plugin-accepted", "a plugin implementing no handler was accepted by stub.New")
		}
		var fs []mkType
		step := len(genTypes) / 150
		if f.Thorough() {
			step = len(genTypes) / 600
		}
		if step == 0 {
			step = 1
		}
		for i := 0; i < len(genTypes); i += step {
			fs = append(fs, genTypes[i])
		}
		res.Bounds["full_stack_types"] = checkFullStack(fs)
		res.Bounds["split_synchronizations"] = checkSyncDispatch()
	}
	res.Distinct = res.Evaluations
	res.Bounds["types"] = len(genTypes)
	res.Bounds["types_this_shard"] = n
	res.Sample(map[string]any{"type": "implements {RunPodSandbox,StopContainer} + Configure", "requested_mask": "0x201", "expect": "subscribed to exactly 0x201; 0x203 rejected"})
	if f.Replay != "" {
		b, _ := os.ReadFile(f.Replay)
		var w struct {
			Signature string `json:"signature"`
		}
		json.Unmarshal(b, &w)
		for _, x := range res.Findings {
			if x.Signature == w.Signature {
				fmt.Printf("FINDING %s: %s\nVIOLATION property=%s replay=%s\n", x.Signature, x.Message, f.Prop, f.Replay)
				os.Exit(1)
			}
		}
		fmt.Println("no violation")
		return
	}
	res.Write(f)
}
