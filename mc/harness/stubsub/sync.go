package main

import (
	"context"
	"fmt"
	"strings"

	"github.com/containerd/nri/pkg/api"
	"github.com/containerd/nri/pkg/stub"
)

// The Synchronize request is the one request the runtime may send in several
// messages (all but the last marked More). Every split of a small state into
// up to three messages, each carrying 0..2 pods and 0..2 containers, followed
// by a second synchronization on the same stub: the handler is called exactly
// once per synchronization, after the last message, with exactly the pods and
// containers the messages carried, in order, and its updates or error come
// back unchanged.

type syncPlugin struct{ r *syncRec }

type syncRec struct {
	calls [][2][]string
	upd   []*api.ContainerUpdate
	err   error
}

func (p syncPlugin) Synchronize(_ context.Context, pods []*api.PodSandbox, ctrs []*api.Container) ([]*api.ContainerUpdate, error) {
	var ps, cs []string
	for _, x := range pods {
		ps = append(ps, x.GetId())
	}
	for _, x := range ctrs {
		cs = append(cs, x.GetId()+"@"+x.GetPodSandboxId())
	}
	p.r.calls = append(p.r.calls, [2][]string{ps, cs})
	return p.r.upd, p.r.err
}

func (p syncPlugin) RunPodSandbox(context.Context, *api.PodSandbox) error { return nil }

type syncMsg struct{ pods, ctrs int }

func checkSyncDispatch() int {
	var shapes []syncMsg
	for p := 0; p <= 2; p++ {
		for c := 0; c <= 2; c++ {
			shapes = append(shapes, syncMsg{p, c})
		}
	}
	var seqs [][]syncMsg
	for _, a := range shapes {
		seqs = append(seqs, []syncMsg{a})
		for _, b := range shapes {
			seqs = append(seqs, []syncMsg{a, b})
			for _, c := range shapes {
				seqs = append(seqs, []syncMsg{a, b, c})
			}
		}
	}
	followUps := [][]syncMsg{{{1, 1}}, {{0, 1}, {1, 0}}, {{0, 0}}}
	n := 0
	for _, herr := range []error{nil, errHandler} {
		for _, first := range seqs {
			for _, second := range followUps {
				r := &syncRec{err: herr}
				if herr == nil {
					r.upd = []*api.ContainerUpdate{{ContainerId: "u1", Linux: &api.LinuxContainerUpdate{Resources: &api.LinuxResources{Cpu: &api.LinuxCPU{Shares: api.UInt64(uint64(77))}}}}}
				}
				st, err := stub.New(syncPlugin{r}, stub.WithPluginName("sync"), stub.WithPluginIdx("10"))
				if err != nil {
					fail("new-rejected", "stub.New rejected a plugin with a Synchronize handler: %v", err)
					return n
				}
				svc := st.(api.PluginService)
				id := 0
				for round, seq := range [][]syncMsg{first, second} {
					r.calls = nil
					var wantP, wantC []string
					desc := []string{}
					for i, m := range seq {
						req := &api.SynchronizeRequest{More: i < len(seq)-1}
						for k := 0; k < m.pods; k++ {
							id++
							req.Pods = append(req.Pods, &api.PodSandbox{Id: fmt.Sprintf("p%d", id)})
							wantP = append(wantP, fmt.Sprintf("p%d", id))
						}
						for k := 0; k < m.ctrs; k++ {
							id++
							req.Containers = append(req.Containers, &api.Container{Id: fmt.Sprintf("c%d", id), PodSandboxId: "p1"})
							wantC = append(wantC, fmt.Sprintf("c%d@p1", id))
						}
						desc = append(desc, fmt.Sprintf("%dp+%dc", m.pods, m.ctrs))
						rpl, gotErr := svc.Synchronize(ctx, req)
						res.Evaluations++
						res.Transitions++
						where := fmt.Sprintf("synchronization %d split as [%s], message %d", round+1, strings.Join(desc, " | "), i+1)
						if req.More {
							if gotErr != nil || !rpl.GetMore() || len(rpl.GetUpdate()) != 0 {
								fail("sync-partial-answer", "%s: a partial message was answered with (%v, %v)", where, rpl, gotErr)
							}
							if len(r.calls) != 0 {
								fail("sync-early-delivery", "%s: the handler was called before the last message", where)
							}
							continue
						}
						switch {
						case len(r.calls) != 1:
							fail("sync-delivery-count", "%s: the handler was called %d times", where, len(r.calls))
						case fmt.Sprint(r.calls[0][0]) != fmt.Sprint(wantP) || fmt.Sprint(r.calls[0][1]) != fmt.Sprint(wantC):
							fail("sync-wrong-state", "%s: the handler got pods %v containers %v, the messages carried pods %v containers %v", where, r.calls[0][0], r.calls[0][1], wantP, wantC)
						case herr != nil && (gotErr == nil || gotErr.Error() != herr.Error()):
							fail("sync-error-lost", "%s: the handler failed with %v, the runtime gets %v", where, herr, gotErr)
						case herr == nil && (gotErr != nil || rpl.GetMore() || len(rpl.GetUpdate()) != 1 || rpl.GetUpdate()[0].GetContainerId() != "u1" ||
							rpl.GetUpdate()[0].GetLinux().GetResources().GetCpu().GetShares().GetValue() != 77):
							fail("sync-updates-changed", "%s: the handler's updates came back as (%v, %v)", where, rpl, gotErr)
						}
					}
				}
				n++
			}
		}
	}
	return n
}
