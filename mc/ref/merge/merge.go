// Package merge is the reference model ("refmerge") of how NRI combines the
// responses of several plugins to one container creation, update or stop
// request: an ownership ledger plus sequential application of adjustments
// and updates. It is written from the property statements C01-C05 and the
// documented removal-marker conventions only; it contains no nri code.
//
// Values are small integers; the harness maps them to concrete field values.
package merge

import (
	"fmt"
	"sort"
)

// Item names one ownable (or appendable) item of a container.
type Item struct {
	Kind string // e.g. "annotation", "mem.limit", "hook.prestart"
	Key  string // "" for singletons
}

func (i Item) String() string {
	if i.Key == "" {
		return i.Kind
	}
	return i.Kind + ":" + i.Key
}

// Op is one element of a plugin's adjustment or update.
type Op struct {
	Item   Item
	Remove bool // removal marker (annotation, env, mount, device, args)
	Val    int
}

// Update is one ContainerUpdate of a plugin's response.
type Update struct {
	Target string
	Ignore bool // ignore-failure
	Sets   []Op
	// Shape of an update that sets nothing: 0 = no linux section, 1 = linux section without resources,
	// 2 = empty resources (how the message is spelled; the model does not look at it)
	Shape int
}

// Response of one plugin. Adjust is only meaningful for create requests.
type Response struct {
	Adjust  []Op
	Updates []Update
}

// Request under processing.
type Request struct {
	Kind string // "create", "update", "stop"
	ID   string // the request's own container
	// Orig is the original container (create) or the runtime-requested
	// resources (update). OrigList holds the ordered families (hooks,
	// rlimits) of the original container.
	Orig     map[Item]int
	OrigList map[string][]int // kind -> values in order
}

// KindInfo tells the model how an item kind behaves.
type KindInfo struct {
	Append bool // appended in plugin order, never owned (hooks)
	List   bool // owned per key AND kept as an ordered list (rlimits, CDI devices)
	NoView bool // not part of the container shown to plugins (CDI devices)
}

// State of the merge after some plugins.
type State struct {
	Cont       map[Item]int     // current container / own resources (keyed + singleton items)
	Lists      map[string][]int // ordered families: kind -> values (Append and List kinds)
	ListKey    map[string][]string
	Removed    map[Item]bool // items of the original that were removed (and not re-set)
	Touched    map[Item]bool // items set or removed by some plugin
	owner      map[string]map[Item]int
	Upd        map[string]map[Item]int // target -> fields set by plugins (third parties and own)
	UpdSeen    []string                // targets in order of first accepted or attempted update
	OwnChanged bool
	// dropped ignore-failure updates: target -> items they named
	Dropped map[string]map[Item]bool
}

// Verdict of the model for a whole request.
type Verdict struct {
	Fail     bool
	FailAt   int    // plugin position (0-based) whose response makes the request fail
	FailKind string // "conflict" or "self-update"
	FailItem Item
	FailPrev int // earlier owner (conflict)
	// DontCare marks cases whose verdict depends on semantics the
	// statements leave open (claims of a dropped ignore-failure update).
	DontCare bool
	Views    []View // Views[k] is what plugin k is shown (only for invoked plugins)
	Final    *State
}

// View is the container (create) or requested resources (update) as shown to a plugin.
type View struct {
	Cont  map[Item]int
	Lists map[string][]int
}

func copyItems(m map[Item]int) map[Item]int {
	o := make(map[Item]int, len(m))
	for k, v := range m {
		o[k] = v
	}
	return o
}

func copyLists(m map[string][]int) map[string][]int {
	o := make(map[string][]int, len(m))
	for k, v := range m {
		o[k] = append([]int(nil), v...)
	}
	return o
}

// Run applies the responses of the plugins in order.
func Run(req Request, kinds map[string]KindInfo, resps []Response) Verdict {
	st := &State{
		Cont: copyItems(req.Orig), Lists: copyLists(req.OrigList), ListKey: map[string][]string{},
		Removed: map[Item]bool{}, Touched: map[Item]bool{},
		owner: map[string]map[Item]int{}, Upd: map[string]map[Item]int{}, Dropped: map[string]map[Item]bool{},
	}
	v := Verdict{Final: st}
	own := func(target string) map[Item]int {
		o := st.owner[target]
		if o == nil {
			o = map[Item]int{}
			st.owner[target] = o
		}
		return o
	}
	for p, r := range resps {
		// what this plugin is shown
		view := View{Cont: map[Item]int{}, Lists: map[string][]int{}}
		for it, val := range st.Cont {
			if !kinds[it.Kind].NoView {
				view.Cont[it] = val
			}
		}
		for k, l := range st.Lists {
			if !kinds[k].NoView {
				view.Lists[k] = append([]int(nil), l...)
			}
		}
		v.Views = append(v.Views, view)

		if req.Kind == "create" {
			// A lone command-line marker (UpdateArgs with no arguments: nothing is set after it) carries no
			// command line; like an empty argument list it requests no change - nothing is released, claimed,
			// removed or shown differently.
			loneArgs := func(op Op) bool {
				if !op.Remove || op.Item.Kind != "args" {
					return false
				}
				for _, o2 := range r.Adjust {
					if !o2.Remove && o2.Item == op.Item {
						return false
					}
				}
				return true
			}
			// removals first: they release claims and delete values
			for _, op := range r.Adjust {
				if op.Remove && !loneArgs(op) {
					delete(own(req.ID), op.Item)
					if _, had := st.Cont[op.Item]; had {
						delete(st.Cont, op.Item)
					}
					if _, orig := req.Orig[op.Item]; orig {
						st.Removed[op.Item] = true
					}
					st.Touched[op.Item] = true
				}
			}
			for _, op := range r.Adjust {
				if op.Remove {
					continue
				}
				ki := kinds[op.Item.Kind]
				if ki.Append {
					st.Lists[op.Item.Kind] = append(st.Lists[op.Item.Kind], op.Val)
					continue
				}
				if prev, taken := own(req.ID)[op.Item]; taken {
					if prev == p {
						v.DontCare = true // one plugin naming an item twice: the statements are silent
					}
					v.Fail, v.FailAt, v.FailKind, v.FailItem, v.FailPrev = true, p, "conflict", op.Item, prev
					return v
				}
				own(req.ID)[op.Item] = p
				st.Touched[op.Item] = true
				if ki.List {
					st.Lists[op.Item.Kind] = append(st.Lists[op.Item.Kind], op.Val)
					st.ListKey[op.Item.Kind] = append(st.ListKey[op.Item.Kind], op.Item.Key)
					continue
				}
				st.Cont[op.Item] = op.Val
				delete(st.Removed, op.Item)
			}
		}
		for _, u := range r.Updates {
			if req.Kind == "create" && u.Target == req.ID {
				v.Fail, v.FailAt, v.FailKind = true, p, "self-update"
				return v
			}
			seen := false
			for _, t := range st.UpdSeen {
				if t == u.Target {
					seen = true
				}
			}
			if !seen {
				st.UpdSeen = append(st.UpdSeen, u.Target)
			}
			// does a later write touch something a dropped update named?
			for _, op := range u.Sets {
				if st.Dropped[u.Target][op.Item] {
					v.DontCare = true
				}
			}
			// stage: check every claim first
			conflict := false
			o := own(u.Target)
			for _, op := range u.Sets {
				if prev, taken := o[op.Item]; taken {
					if prev == p {
						v.DontCare = true // one plugin naming a field twice: the statements are silent
					}
					if u.Ignore {
						conflict = true
						break
					}
					v.Fail, v.FailAt, v.FailKind, v.FailItem, v.FailPrev = true, p, "conflict", op.Item, prev
					return v
				}
			}
			if conflict {
				d := st.Dropped[u.Target]
				if d == nil {
					d = map[Item]bool{}
					st.Dropped[u.Target] = d
				}
				for _, op := range u.Sets {
					d[op.Item] = true
				}
				continue
			}
			tgt := st.Upd[u.Target]
			if tgt == nil {
				tgt = map[Item]int{}
				st.Upd[u.Target] = tgt
			}
			for _, op := range u.Sets {
				o[op.Item] = p
				tgt[op.Item] = op.Val
				if req.Kind == "update" && u.Target == req.ID {
					st.Cont[op.Item] = op.Val
					st.OwnChanged = true
				}
			}
		}
	}
	return v
}

// SortedItems lists a map's items deterministically.
func SortedItems(m map[Item]int) []string {
	var out []string
	for k, v := range m {
		out = append(out, fmt.Sprintf("%s=%d", k, v))
	}
	sort.Strings(out)
	return out
}
