// Package seam drives the real runtime adaptation with in-process fake
// plugins injected at the pluginType.ttrpcImpl seam (through the export file
// added by the verification overlay).
package seam

import (
	"context"
	"fmt"
	"io"
	"os"

	"github.com/containerd/nri/pkg/adaptation"
	"github.com/containerd/nri/pkg/api"
	"github.com/sirupsen/logrus"
)

func init() {
	// nri logs every request through logrus; the harnesses issue millions of them
	if os.Getenv("VERIF_LOG") == "" {
		logrus.SetOutput(io.Discard)
		logrus.SetLevel(logrus.ErrorLevel)
	}
}

// Handler answers one call to a fake plugin. req is the live request object
// handed over by the adaptation (clone it before keeping it).
type Handler func(f *Fake, method string, req any) (any, error)

// Fake is a scripted in-process plugin.
type Fake struct {
	Pos  int // position in the harness' list (not the invocation order)
	Idx  string
	Base string
	H    Handler
	VP   *adaptation.VerifPlugin
}

func (f *Fake) Name() string { return f.Idx + "-" + f.Base }

func (f *Fake) Configure(ctx context.Context, req *api.ConfigureRequest) (*api.ConfigureResponse, error) {
	r, err := f.H(f, "Configure", req)
	if r == nil {
		return nil, err
	}
	return r.(*api.ConfigureResponse), err
}

func (f *Fake) Synchronize(ctx context.Context, req *api.SynchronizeRequest) (*api.SynchronizeResponse, error) {
	r, err := f.H(f, "Synchronize", req)
	if r == nil {
		return nil, err
	}
	return r.(*api.SynchronizeResponse), err
}

func (f *Fake) Shutdown(ctx context.Context, req *api.Empty) (*api.Empty, error) {
	_, err := f.H(f, "Shutdown", req)
	return &api.Empty{}, err
}

func (f *Fake) CreateContainer(ctx context.Context, req *api.CreateContainerRequest) (*api.CreateContainerResponse, error) {
	r, err := f.H(f, "CreateContainer", req)
	if r == nil {
		return nil, err
	}
	return r.(*api.CreateContainerResponse), err
}

func (f *Fake) UpdateContainer(ctx context.Context, req *api.UpdateContainerRequest) (*api.UpdateContainerResponse, error) {
	r, err := f.H(f, "UpdateContainer", req)
	if r == nil {
		return nil, err
	}
	return r.(*api.UpdateContainerResponse), err
}

func (f *Fake) StopContainer(ctx context.Context, req *api.StopContainerRequest) (*api.StopContainerResponse, error) {
	r, err := f.H(f, "StopContainer", req)
	if r == nil {
		return nil, err
	}
	return r.(*api.StopContainerResponse), err
}

func (f *Fake) UpdatePodSandbox(ctx context.Context, req *api.UpdatePodSandboxRequest) (*api.UpdatePodSandboxResponse, error) {
	r, err := f.H(f, "UpdatePodSandbox", req)
	if r == nil {
		return nil, err
	}
	return r.(*api.UpdatePodSandboxResponse), err
}

func (f *Fake) StateChange(ctx context.Context, req *api.StateChangeEvent) (*api.Empty, error) {
	_, err := f.H(f, "StateChange", req)
	if err != nil {
		return nil, err
	}
	return &api.Empty{}, nil
}

// Env is an adaptation with fake plugins.
type Env struct {
	R     *adaptation.Adaptation
	Fakes []*Fake
	// SyncFn / UpdateFn hooks of the runtime (may be replaced before use)
	OnSync   func(ctx context.Context, cb adaptation.SyncCB) error
	OnUpdate func(ctx context.Context, u []*api.ContainerUpdate) ([]*api.ContainerUpdate, error)
}

// NewEnv creates an adaptation (not started: no listener, no pre-installed plugins).
func NewEnv() (*Env, error) {
	e := &Env{}
	r, err := adaptation.New("verif", "0.0",
		func(ctx context.Context, cb adaptation.SyncCB) error {
			if e.OnSync != nil {
				return e.OnSync(ctx, cb)
			}
			_, err := cb(ctx, nil, nil)
			return err
		},
		func(ctx context.Context, u []*api.ContainerUpdate) ([]*api.ContainerUpdate, error) {
			if e.OnUpdate != nil {
				return e.OnUpdate(ctx, u)
			}
			return nil, nil
		},
		adaptation.WithDisabledExternalConnections(),
		adaptation.WithPluginPath("/nonexistent/nri/plugins"),
		adaptation.WithPluginConfigPath("/nonexistent/nri/conf.d"),
	)
	if err != nil {
		return nil, err
	}
	e.R = r
	return e, nil
}

// AddFake creates a bare fake plugin with the given index and mask and
// activates it (append + sort, as the accept loop does).
func (e *Env) AddFake(idx, base string, events api.EventMask, h Handler) *Fake {
	f := &Fake{Pos: len(e.Fakes), Idx: idx, Base: base, H: h}
	f.VP = adaptation.VerifBarePlugin(e.R, idx, base, events, f)
	e.Fakes = append(e.Fakes, f)
	adaptation.VerifActivate(e.R, f.VP)
	return f
}

// StdIdx is the index string used for the plugin at invocation position p.
func StdIdx(p int) string { return fmt.Sprintf("%02d", 10*(p+1)) }
