// Package rep is the result format shared by harness workers and the runner.
package rep

import (
	"encoding/json"
	"flag"
	"fmt"
	"os"
	"sort"
	"time"
)

// Finding is one violating execution / case, classified by signature.
type Finding struct {
	Signature string `json:"signature"` // stable classification (matched against known_findings.jsonl)
	Message   string `json:"message"`
	Replay    any    `json:"replay"` // self-contained replay payload
}

// Result is what one worker reports.
type Result struct {
	Property     string         `json:"property"`
	Engine       string         `json:"engine"`
	Evaluations  int64          `json:"evaluations"` // executions / cases run on the real code
	States       int64          `json:"states"`      // decision states visited
	Transitions  int64          `json:"transitions"` // steps / operations executed
	Distinct     int64          `json:"distinct"`    // distinct non-trivial cases / outcomes (measured)
	Rule         string         `json:"rule"`
	Exhaustive   bool           `json:"exhaustive"`
	Supporting   bool           `json:"supporting,omitempty"` // supporting evidence only (free-running race pass): not part of the exhaustiveness claim
	Bounds       map[string]any `json:"bounds,omitempty"`
	Outcomes     map[string]int `json:"outcomes,omitempty"`
	Samples      []any          `json:"samples,omitempty"`
	Findings     []Finding      `json:"findings,omitempty"`
	FindingsCut  int            `json:"findings_cut,omitempty"` // findings beyond the per-signature cap
	Notes        []string       `json:"notes,omitempty"`
	Assumptions  []string       `json:"assumptions,omitempty"`
	WallS        float64        `json:"wall_s"`
	MachineryErr string         `json:"machinery_error,omitempty"`
}

// Common worker flags.
type Flags struct {
	Prop    string
	Tier    string
	Out     string
	Shard   int
	NShards int
	Replay  string
	Engine  string
	Start   time.Time
}

func ParseFlags() *Flags {
	f := &Flags{Start: time.Now()}
	flag.StringVar(&f.Prop, "prop", "", "property id")
	flag.StringVar(&f.Tier, "tier", "quick", "quick|thorough")
	flag.StringVar(&f.Out, "out", "", "result file")
	flag.IntVar(&f.Shard, "shard", 0, "shard index")
	flag.IntVar(&f.NShards, "nshards", 1, "number of shards")
	flag.StringVar(&f.Replay, "replay", "", "replay file")
	flag.StringVar(&f.Engine, "engine", "", "engine / scenario family")
	flag.Parse()
	return f
}

func (f *Flags) Thorough() bool { return f.Tier == "thorough" }

// perSigCap bounds how many findings with the same signature are kept.
const perSigCap = 3

// Add records a finding, keeping at most perSigCap per signature.
func (r *Result) Add(sig, msg string, replay any) {
	n := 0
	for _, f := range r.Findings {
		if f.Signature == sig {
			n++
		}
	}
	if n >= perSigCap {
		r.FindingsCut++
		return
	}
	r.Findings = append(r.Findings, Finding{Signature: sig, Message: msg, Replay: replay})
}

func (r *Result) Outcome(o string) {
	if r.Outcomes == nil {
		r.Outcomes = map[string]int{}
	}
	r.Outcomes[o]++
}

func (r *Result) Sample(s any) {
	if len(r.Samples) < 4 {
		r.Samples = append(r.Samples, s)
	}
}

// Write stores the result.
func (r *Result) Write(f *Flags) {
	r.WallS = time.Since(f.Start).Seconds()
	if r.Property == "" {
		r.Property = f.Prop
	}
	sort.SliceStable(r.Findings, func(i, j int) bool { return r.Findings[i].Signature < r.Findings[j].Signature })
	b, err := json.MarshalIndent(r, "", " ")
	if err != nil {
		fmt.Fprintln(os.Stderr, "rep: marshal:", err)
		os.Exit(2)
	}
	if f.Out == "" {
		os.Stdout.Write(append(b, '\n'))
		return
	}
	if err := os.WriteFile(f.Out, b, 0o644); err != nil {
		fmt.Fprintln(os.Stderr, "rep: write:", err)
		os.Exit(2)
	}
}

// Fatal reports a machinery error (exit 2, never a violation).
func Fatal(f *Flags, format string, a ...any) {
	msg := fmt.Sprintf(format, a...)
	fmt.Fprintln(os.Stderr, "MACHINERY ERROR:", msg)
	if f != nil && f.Out != "" {
		r := &Result{Property: f.Prop, MachineryErr: msg}
		b, _ := json.Marshal(r)
		os.WriteFile(f.Out, b, 0o644)
	}
	os.Exit(2)
}
