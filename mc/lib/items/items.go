// Package items binds the abstract item vocabulary of the reference models
// (kind, key, small integer value) to concrete nri API / OCI spec fields.
package items

import (
	"fmt"
	"sort"
	"strconv"
	"strings"

	"github.com/containerd/nri/pkg/api"
	rspec "github.com/opencontainers/runtime-spec/specs-go"

	"nriverif/ref/merge"
)

type Item = merge.Item

// Kind describes one item kind.
type Kind struct {
	Name       string
	Keyed      bool
	Keys       []string // representative keys (keyed kinds)
	InAdjust   bool
	InUpdate   bool
	Removable  bool // supports a removal marker
	Append     bool // hooks: appended, never owned
	List       bool // rlimits, CDI: owned per key, kept as ordered list
	NoView     bool // CDI devices are not shown to plugins
	Bool       bool // value is boolean (v%2)
	GenIgnores bool // the OCI generator does not apply this kind
}

var Kinds = []Kind{
	// the second annotation key starts with a character that sorts below '-' (the removal marker)
	{Name: "annotation", Keyed: true, Keys: []string{"ka", "+kb"}, InAdjust: true, Removable: true},
	{Name: "env", Keyed: true, Keys: []string{"EA", "EB"}, InAdjust: true, Removable: true},
	{Name: "mount", Keyed: true, Keys: []string{"/ma", "/dev/da"}, InAdjust: true, Removable: true},
	// the second device path is legal but not in canonical form; the second mount destination (above)
	// is the first device's path: the two kinds have separate key spaces
	{Name: "device", Keyed: true, Keys: []string{"/dev/da", "/dev//db"}, InAdjust: true, Removable: true},
	{Name: "args", InAdjust: true, Removable: true},
	{Name: "cdi", Keyed: true, Keys: []string{"v.com/c=a", "v.com/c=b"}, InAdjust: true, List: true, NoView: true},
	{Name: "rlimit", Keyed: true, Keys: []string{"RLIMIT_NOFILE", "RLIMIT_NPROC"}, InAdjust: true, List: true},
	{Name: "hook.prestart", InAdjust: true, Append: true},
	{Name: "hook.createruntime", InAdjust: true, Append: true},
	{Name: "hook.createcontainer", InAdjust: true, Append: true},
	{Name: "hook.startcontainer", InAdjust: true, Append: true},
	{Name: "hook.poststart", InAdjust: true, Append: true},
	{Name: "hook.poststop", InAdjust: true, Append: true},
	{Name: "hugepage", Keyed: true, Keys: []string{"2MB", "1GB"}, InAdjust: true, InUpdate: true},
	{Name: "unified", Keyed: true, Keys: []string{"ua", "ub"}, InAdjust: true, InUpdate: true},
	{Name: "mem.limit", InAdjust: true, InUpdate: true},
	{Name: "mem.reservation", InAdjust: true, InUpdate: true, GenIgnores: true},
	{Name: "mem.swap", InAdjust: true, InUpdate: true, GenIgnores: true},
	{Name: "mem.kernel", InAdjust: true, InUpdate: true, GenIgnores: true},
	{Name: "mem.kerneltcp", InAdjust: true, InUpdate: true, GenIgnores: true},
	{Name: "mem.swappiness", InAdjust: true, InUpdate: true, GenIgnores: true},
	{Name: "mem.disableoom", InAdjust: true, InUpdate: true, Bool: true, GenIgnores: true},
	{Name: "mem.usehierarchy", InAdjust: true, InUpdate: true, Bool: true, GenIgnores: true},
	{Name: "cpu.shares", InAdjust: true, InUpdate: true},
	{Name: "cpu.quota", InAdjust: true, InUpdate: true},
	{Name: "cpu.period", InAdjust: true, InUpdate: true},
	{Name: "cpu.rtruntime", InAdjust: true, InUpdate: true},
	{Name: "cpu.rtperiod", InAdjust: true, InUpdate: true},
	{Name: "cpu.cpus", InAdjust: true, InUpdate: true},
	{Name: "cpu.mems", InAdjust: true, InUpdate: true},
	{Name: "pids", InAdjust: true, InUpdate: true},
	{Name: "blockio", InAdjust: true, InUpdate: true},
	{Name: "rdt", InAdjust: true, InUpdate: true},
	{Name: "cgroupspath", InAdjust: true},
	{Name: "oomscoreadj", InAdjust: true},
}

var byName = map[string]*Kind{}

func init() {
	for i := range Kinds {
		byName[Kinds[i].Name] = &Kinds[i]
	}
}

func K(name string) *Kind {
	k := byName[name]
	if k == nil {
		panic("unknown kind " + name)
	}
	return k
}

// KindInfos is the table handed to the reference model.
func KindInfos() map[string]merge.KindInfo {
	m := map[string]merge.KindInfo{}
	for _, k := range Kinds {
		m[k.Name] = merge.KindInfo{Append: k.Append, List: k.List, NoView: k.NoView}
	}
	return m
}

// Norm normalises a value for comparison (booleans carry one bit).
func Norm(kind string, v int) int {
	if K(kind).Bool {
		return v & 1
	}
	return v
}

func sv(v int) string { return "v" + strconv.Itoa(v) }

// envVal: the value of an environment variable contains the separator character itself
func envVal(v int) string { return "o=" + sv(v) }

func pv(s string) int {
	s = strings.TrimLeft(s, "v/abcdefghijklmnopqrstuwxyz=")
	n, err := strconv.Atoi(s)
	if err != nil {
		return -9999
	}
	return n
}

func hook(v int) *api.Hook { return &api.Hook{Path: "/hook/" + sv(v), Args: []string{"h", sv(v)}} }

func hookVal(path string) int { return pv(strings.TrimPrefix(path, "/hook/")) }

func hooksField(h *api.Hooks, kind string) *[]*api.Hook {
	switch kind {
	case "hook.prestart":
		return &h.Prestart
	case "hook.createruntime":
		return &h.CreateRuntime
	case "hook.createcontainer":
		return &h.CreateContainer
	case "hook.startcontainer":
		return &h.StartContainer
	case "hook.poststart":
		return &h.Poststart
	case "hook.poststop":
		return &h.Poststop
	}
	panic(kind)
}

// mount: the value is carried by the last option, after a propagation option (the order the CRI uses); the source changes only with every second
// plugin value (10 -> v0, 20 and 30 -> v20, ...), so that some pairs of writers differ in nothing
// but the contents of their option lists (same destination, type, source and number of options)
func mount(dest string, v int) *api.Mount {
	return &api.Mount{Destination: dest, Source: "/src/" + sv(v-v%20), Type: "bind", Options: []string{"rbind", "rprivate", "o" + sv(v)}}
}

func mountVal(source string, options []string) int {
	for _, o := range options {
		if strings.HasPrefix(o, "ov") {
			return pv(o)
		}
	}
	// mounts built by hand (no value option): the source names the value
	return pv(strings.TrimPrefix(source, "/src/"))
}

// Device is the device the alphabet uses for a key and a value.
func Device(path string, v int) *api.LinuxDevice { return device(path, v) }

func device(path string, v int) *api.LinuxDevice {
	return &api.LinuxDevice{Path: path, Type: "c", Major: int64(v), Minor: int64(v + 100)}
}

// setResource sets a resource field on r (allocating sub-messages as a plugin would).
func setResource(r *api.LinuxResources, it Item, v int) {
	mem := func() *api.LinuxMemory {
		if r.Memory == nil {
			r.Memory = &api.LinuxMemory{}
		}
		return r.Memory
	}
	cpu := func() *api.LinuxCPU {
		if r.Cpu == nil {
			r.Cpu = &api.LinuxCPU{}
		}
		return r.Cpu
	}
	switch it.Kind {
	case "hugepage":
		r.HugepageLimits = append(r.HugepageLimits, &api.HugepageLimit{PageSize: it.Key, Limit: uint64(v)})
	case "unified":
		if r.Unified == nil {
			r.Unified = map[string]string{}
		}
		r.Unified[it.Key] = sv(v)
	case "mem.limit":
		mem().Limit = api.Int64(int64(v))
	case "mem.reservation":
		mem().Reservation = api.Int64(int64(v))
	case "mem.swap":
		mem().Swap = api.Int64(int64(v))
	case "mem.kernel":
		mem().Kernel = api.Int64(int64(v))
	case "mem.kerneltcp":
		mem().KernelTcp = api.Int64(int64(v))
	case "mem.swappiness":
		mem().Swappiness = api.UInt64(uint64(v))
	case "mem.disableoom":
		mem().DisableOomKiller = api.Bool(v&1 == 1)
	case "mem.usehierarchy":
		mem().UseHierarchy = api.Bool(v&1 == 1)
	case "cpu.shares":
		cpu().Shares = api.UInt64(uint64(v))
	case "cpu.quota":
		cpu().Quota = api.Int64(int64(v))
	case "cpu.period":
		cpu().Period = api.UInt64(uint64(v))
	case "cpu.rtruntime":
		cpu().RealtimeRuntime = api.Int64(int64(v))
	case "cpu.rtperiod":
		cpu().RealtimePeriod = api.UInt64(uint64(v))
	case "cpu.cpus":
		cpu().Cpus = sv(v)
	case "cpu.mems":
		cpu().Mems = sv(v)
	case "pids":
		r.Pids = &api.LinuxPids{Limit: int64(v)}
	case "blockio":
		r.BlockioClass = api.String(sv(v))
	case "rdt":
		r.RdtClass = api.String(sv(v))
	default:
		panic("not a resource kind: " + it.Kind)
	}
}

// ReadResources reads the set fields of r. Hugepage limits are read as
// "last entry per page size".
func ReadResources(r *api.LinuxResources, into map[Item]int) {
	if r == nil {
		return
	}
	if m := r.Memory; m != nil {
		if m.Limit != nil {
			into[Item{Kind: "mem.limit"}] = int(m.Limit.Value)
		}
		if m.Reservation != nil {
			into[Item{Kind: "mem.reservation"}] = int(m.Reservation.Value)
		}
		if m.Swap != nil {
			into[Item{Kind: "mem.swap"}] = int(m.Swap.Value)
		}
		if m.Kernel != nil {
			into[Item{Kind: "mem.kernel"}] = int(m.Kernel.Value)
		}
		if m.KernelTcp != nil {
			into[Item{Kind: "mem.kerneltcp"}] = int(m.KernelTcp.Value)
		}
		if m.Swappiness != nil {
			into[Item{Kind: "mem.swappiness"}] = int(m.Swappiness.Value)
		}
		if m.DisableOomKiller != nil {
			into[Item{Kind: "mem.disableoom"}] = b2i(m.DisableOomKiller.Value)
		}
		if m.UseHierarchy != nil {
			into[Item{Kind: "mem.usehierarchy"}] = b2i(m.UseHierarchy.Value)
		}
	}
	if c := r.Cpu; c != nil {
		if c.Shares != nil {
			into[Item{Kind: "cpu.shares"}] = int(c.Shares.Value)
		}
		if c.Quota != nil {
			into[Item{Kind: "cpu.quota"}] = int(c.Quota.Value)
		}
		if c.Period != nil {
			into[Item{Kind: "cpu.period"}] = int(c.Period.Value)
		}
		if c.RealtimeRuntime != nil {
			into[Item{Kind: "cpu.rtruntime"}] = int(c.RealtimeRuntime.Value)
		}
		if c.RealtimePeriod != nil {
			into[Item{Kind: "cpu.rtperiod"}] = int(c.RealtimePeriod.Value)
		}
		if c.Cpus != "" {
			into[Item{Kind: "cpu.cpus"}] = pv(c.Cpus)
		}
		if c.Mems != "" {
			into[Item{Kind: "cpu.mems"}] = pv(c.Mems)
		}
	}
	for _, h := range r.HugepageLimits {
		into[Item{Kind: "hugepage", Key: h.PageSize}] = int(h.Limit)
	}
	for k, v := range r.Unified {
		into[Item{Kind: "unified", Key: k}] = pv(v)
	}
	if r.Pids != nil {
		into[Item{Kind: "pids"}] = int(r.Pids.Limit)
	}
	if r.BlockioClass != nil {
		into[Item{Kind: "blockio"}] = pv(r.BlockioClass.Value)
	}
	if r.RdtClass != nil {
		into[Item{Kind: "rdt"}] = pv(r.RdtClass.Value)
	}
}

func b2i(b bool) int {
	if b {
		return 1
	}
	return 0
}

// DupHugepages reports page sizes that occur more than once in r.
func DupHugepages(r *api.LinuxResources) []string {
	seen := map[string]int{}
	var dup []string
	if r == nil {
		return nil
	}
	for _, h := range r.HugepageLimits {
		seen[h.PageSize]++
		if seen[h.PageSize] == 2 {
			dup = append(dup, h.PageSize)
		}
	}
	return dup
}

// AdjustOp adds one model op to a plugin's adjustment.
func AdjustOp(a *api.ContainerAdjustment, op merge.Op) {
	it, v := op.Item, op.Val
	k := K(it.Kind)
	if op.Remove {
		switch it.Kind {
		case "annotation":
			a.RemoveAnnotation(it.Key)
		case "env":
			a.RemoveEnv(it.Key)
		case "mount":
			a.RemoveMount(it.Key)
		case "device":
			a.RemoveDevice(it.Key)
		case "args":
			// the marker is the empty first element; a following set op completes it
			a.Args = []string{""}
		default:
			panic("kind not removable: " + it.Kind)
		}
		return
	}
	switch {
	case it.Kind == "annotation":
		a.AddAnnotation(it.Key, sv(v))
	case it.Kind == "env":
		a.AddEnv(it.Key, envVal(v))
	case it.Kind == "mount":
		a.AddMount(mount(it.Key, v))
	case it.Kind == "device":
		a.AddDevice(device(it.Key, v))
	case it.Kind == "args":
		if len(a.Args) == 1 && a.Args[0] == "" {
			a.UpdateArgs([]string{"cmd", sv(v)})
		} else {
			a.SetArgs([]string{"cmd", sv(v)})
		}
	case it.Kind == "cdi":
		a.AddCDIDevice(&api.CDIDevice{Name: it.Key})
	case it.Kind == "rlimit":
		a.AddRlimit(it.Key, uint64(v), uint64(v))
	case k.Append:
		h := &api.Hooks{}
		*hooksField(h, it.Kind) = []*api.Hook{hook(v)}
		a.AddHooks(h)
	case it.Kind == "cgroupspath":
		a.SetLinuxCgroupsPath("/cg/" + sv(v))
	case it.Kind == "oomscoreadj":
		x := v
		a.SetLinuxOomScoreAdj(&x)
	default:
		if a.Linux == nil {
			a.Linux = &api.LinuxContainerAdjustment{}
		}
		if a.Linux.Resources == nil {
			a.Linux.Resources = &api.LinuxResources{}
		}
		setResource(a.Linux.Resources, it, v)
	}
}

// CDIVal maps a CDI device name to the value the model uses for it in the
// ordered "cdi" list (devices carry no value of their own, the name is all).
func CDIVal(name string) int {
	for i, k := range K("cdi").Keys {
		if k == name {
			return i + 1
		}
	}
	return -1
}

// UpdateOp adds one set to a plugin's update.
func UpdateOp(u *api.ContainerUpdate, op merge.Op) {
	if u.Linux == nil {
		u.Linux = &api.LinuxContainerUpdate{}
	}
	if u.Linux.Resources == nil {
		u.Linux.Resources = &api.LinuxResources{}
	}
	setResource(u.Linux.Resources, op.Item, op.Val)
}

// BuildAdjustment converts model ops into an adjustment (nil if there are none).
func BuildAdjustment(ops []merge.Op) *api.ContainerAdjustment {
	if len(ops) == 0 {
		return nil
	}
	a := &api.ContainerAdjustment{}
	for _, op := range ops {
		AdjustOp(a, op)
	}
	return a
}

// BuildUpdates converts model updates.
func BuildUpdates(us []merge.Update) []*api.ContainerUpdate {
	var out []*api.ContainerUpdate
	for _, mu := range us {
		u := &api.ContainerUpdate{ContainerId: mu.Target, IgnoreFailure: mu.Ignore}
		for _, op := range mu.Sets {
			UpdateOp(u, op)
		}
		if len(mu.Sets) == 0 {
			switch mu.Shape {
			case 1:
				u.Linux = &api.LinuxContainerUpdate{}
			case 2:
				u.Linux = &api.LinuxContainerUpdate{Resources: &api.LinuxResources{}}
			}
		}
		out = append(out, u)
	}
	return out
}

// BuildContainer creates the original container for a create request.
func BuildContainer(id string, orig map[Item]int, lists map[string][]int) *api.Container {
	c := &api.Container{Id: id, PodSandboxId: "pod0", Name: "ctr-" + id, Args: []string{"cmd", "orig"}}
	var its []Item
	for it := range orig {
		its = append(its, it)
	}
	sort.Slice(its, func(i, j int) bool { return its[i].String() < its[j].String() })
	lin := func() *api.LinuxContainer {
		if c.Linux == nil {
			c.Linux = &api.LinuxContainer{}
		}
		return c.Linux
	}
	for _, it := range its {
		v := orig[it]
		switch it.Kind {
		case "annotation":
			if c.Annotations == nil {
				c.Annotations = map[string]string{}
			}
			c.Annotations[it.Key] = sv(v)
		case "env":
			c.Env = append(c.Env, it.Key+"="+envVal(v))
		case "mount":
			c.Mounts = append(c.Mounts, mount(it.Key, v))
		case "device":
			lin().Devices = append(lin().Devices, device(it.Key, v))
		case "args":
			c.Args = []string{"cmd", sv(v)}
		case "cgroupspath":
			lin().CgroupsPath = "/cg/" + sv(v)
		case "oomscoreadj":
			lin().OomScoreAdj = &api.OptionalInt{Value: int64(v)}
		case "cdi":
			// CDI devices are not part of a container
		default:
			if lin().Resources == nil {
				lin().Resources = &api.LinuxResources{}
			}
			setResource(lin().Resources, it, v)
		}
	}
	for kind, vals := range lists {
		for _, v := range vals {
			switch {
			case kind == "rlimit":
				c.Rlimits = append(c.Rlimits, &api.POSIXRlimit{Type: "RLIMIT_ORIG" + strconv.Itoa(v), Hard: uint64(v), Soft: uint64(v)})
			case strings.HasPrefix(kind, "hook."):
				if c.Hooks == nil {
					c.Hooks = &api.Hooks{}
				}
				f := hooksField(c.Hooks, kind)
				*f = append(*f, hook(v))
			}
		}
	}
	return c
}

// BuildResources creates a resource set from items (runtime update request).
func BuildResources(orig map[Item]int) *api.LinuxResources {
	r := &api.LinuxResources{}
	var its []Item
	for it := range orig {
		its = append(its, it)
	}
	sort.Slice(its, func(i, j int) bool { return its[i].String() < its[j].String() })
	for _, it := range its {
		setResource(r, it, orig[it])
	}
	return r
}

// ReadContainer reads a container (as shown to a plugin) into model terms.
func ReadContainer(c *api.Container) (map[Item]int, map[string][]int, []string) {
	cont := map[Item]int{}
	lists := map[string][]int{}
	var problems []string
	for k, v := range c.Annotations {
		cont[Item{Kind: "annotation", Key: k}] = pv(v)
	}
	seenEnv := map[string]bool{}
	for _, e := range c.Env {
		kv := strings.SplitN(e, "=", 2)
		if seenEnv[kv[0]] {
			problems = append(problems, "duplicate env "+kv[0])
		}
		seenEnv[kv[0]] = true
		val := ""
		if len(kv) == 2 {
			val = kv[1]
		}
		cont[Item{Kind: "env", Key: kv[0]}] = pv(val)
	}
	seenM := map[string]bool{}
	for _, m := range c.Mounts {
		if seenM[m.Destination] {
			problems = append(problems, "duplicate mount "+m.Destination)
		}
		seenM[m.Destination] = true
		cont[Item{Kind: "mount", Key: m.Destination}] = mountVal(m.Source, m.Options)
	}
	if len(c.Args) == 2 && c.Args[0] == "cmd" {
		if c.Args[1] != "orig" {
			cont[Item{Kind: "args"}] = pv(c.Args[1])
		}
	} else {
		problems = append(problems, fmt.Sprintf("unexpected args %q", c.Args))
	}
	if l := c.Linux; l != nil {
		seenD := map[string]bool{}
		for _, d := range l.Devices {
			if seenD[d.Path] {
				problems = append(problems, "duplicate device "+d.Path)
			}
			seenD[d.Path] = true
			cont[Item{Kind: "device", Key: d.Path}] = int(d.Major)
		}
		ReadResources(l.Resources, cont)
		for _, p := range DupHugepages(l.Resources) {
			_ = p // duplicates are compared as last-wins
		}
		if l.CgroupsPath != "" {
			cont[Item{Kind: "cgroupspath"}] = pv(strings.TrimPrefix(l.CgroupsPath, "/cg/"))
		}
		if l.OomScoreAdj != nil {
			cont[Item{Kind: "oomscoreadj"}] = int(l.OomScoreAdj.Value)
		}
	}
	for _, r := range c.Rlimits {
		lists["rlimit"] = append(lists["rlimit"], int(r.Hard))
	}
	if h := c.Hooks; h != nil {
		for _, k := range Kinds {
			if k.Append {
				for _, x := range *hooksField(h, k.Name) {
					lists[k.Name] = append(lists[k.Name], hookVal(x.Path))
				}
			}
		}
	}
	return cont, lists, problems
}

// SpecFromContainer builds the OCI spec a runtime would have generated for the container.
func SpecFromContainer(c *api.Container) *rspec.Spec {
	s := &rspec.Spec{
		Version: "1.1.0",
		Process: &rspec.Process{Args: append([]string(nil), c.Args...), Env: append([]string(nil), c.Env...), Cwd: "/"},
		Linux:   &rspec.Linux{},
	}
	if len(c.Annotations) > 0 {
		s.Annotations = map[string]string{}
		for k, v := range c.Annotations {
			s.Annotations[k] = v
		}
	}
	for _, m := range c.Mounts {
		s.Mounts = append(s.Mounts, m.ToOCI(nil))
	}
	if h := c.Hooks; h != nil {
		s.Hooks = &rspec.Hooks{}
		for _, x := range h.Prestart {
			s.Hooks.Prestart = append(s.Hooks.Prestart, x.ToOCI())
		}
		for _, x := range h.CreateRuntime {
			s.Hooks.CreateRuntime = append(s.Hooks.CreateRuntime, x.ToOCI())
		}
		for _, x := range h.CreateContainer {
			s.Hooks.CreateContainer = append(s.Hooks.CreateContainer, x.ToOCI())
		}
		for _, x := range h.StartContainer {
			s.Hooks.StartContainer = append(s.Hooks.StartContainer, x.ToOCI())
		}
		for _, x := range h.Poststart {
			s.Hooks.Poststart = append(s.Hooks.Poststart, x.ToOCI())
		}
		for _, x := range h.Poststop {
			s.Hooks.Poststop = append(s.Hooks.Poststop, x.ToOCI())
		}
	}
	for _, r := range c.Rlimits {
		s.Process.Rlimits = append(s.Process.Rlimits, rspec.POSIXRlimit{Type: r.Type, Hard: r.Hard, Soft: r.Soft})
	}
	if l := c.Linux; l != nil {
		for _, d := range l.Devices {
			s.Linux.Devices = append(s.Linux.Devices, d.ToOCI())
		}
		if l.Resources != nil {
			s.Linux.Resources = l.Resources.ToOCI()
			if l.Resources.BlockioClass != nil {
				s.Linux.Resources.BlockIO = ResolveBlockIO(l.Resources.BlockioClass.Value)
			}
			if l.Resources.RdtClass != nil {
				s.Linux.IntelRdt = ResolveRdt(l.Resources.RdtClass.Value)
			}
		}
		s.Linux.CgroupsPath = l.CgroupsPath
		if l.OomScoreAdj != nil {
			v := int(l.OomScoreAdj.Value)
			s.Process.OOMScoreAdj = &v
		}
	}
	return s
}

// ResolveBlockIO / ResolveRdt make class names visible in the spec.
func ResolveBlockIO(class string) *rspec.LinuxBlockIO {
	w := uint16(pv(class))
	return &rspec.LinuxBlockIO{Weight: &w}
}

func ResolveRdt(class string) *rspec.LinuxIntelRdt { return &rspec.LinuxIntelRdt{ClosID: class} }

// ReadSpec reads an OCI spec into model terms. CDI devices injected by the
// harness' injector are recorded as annotations "cdi.<n>" by the caller and
// returned in the list "cdi".
func ReadSpec(s *rspec.Spec) (map[Item]int, map[string][]int, []string) {
	cont := map[Item]int{}
	lists := map[string][]int{}
	var problems []string
	for k, v := range s.Annotations {
		cont[Item{Kind: "annotation", Key: k}] = pv(v)
	}
	if p := s.Process; p != nil {
		seen := map[string]bool{}
		for _, e := range p.Env {
			kv := strings.SplitN(e, "=", 2)
			if seen[kv[0]] {
				problems = append(problems, "duplicate env "+kv[0])
			}
			seen[kv[0]] = true
			val := ""
			if len(kv) == 2 {
				val = kv[1]
			}
			cont[Item{Kind: "env", Key: kv[0]}] = pv(val)
		}
		if len(p.Args) == 2 && p.Args[0] == "cmd" {
			if p.Args[1] != "orig" {
				cont[Item{Kind: "args"}] = pv(p.Args[1])
			}
		} else {
			problems = append(problems, fmt.Sprintf("unexpected args %q", p.Args))
		}
		for _, r := range p.Rlimits {
			lists["rlimit"] = append(lists["rlimit"], int(r.Hard))
		}
		if p.OOMScoreAdj != nil {
			cont[Item{Kind: "oomscoreadj"}] = *p.OOMScoreAdj
		}
	}
	seenM := map[string]bool{}
	for _, m := range s.Mounts {
		if seenM[m.Destination] {
			problems = append(problems, "duplicate mount "+m.Destination)
		}
		seenM[m.Destination] = true
		cont[Item{Kind: "mount", Key: m.Destination}] = mountVal(m.Source, m.Options)
	}
	if h := s.Hooks; h != nil {
		rd := func(kind string, hs []rspec.Hook) {
			for _, x := range hs {
				lists[kind] = append(lists[kind], hookVal(x.Path))
			}
		}
		rd("hook.prestart", h.Prestart)
		rd("hook.createruntime", h.CreateRuntime)
		rd("hook.createcontainer", h.CreateContainer)
		rd("hook.startcontainer", h.StartContainer)
		rd("hook.poststart", h.Poststart)
		rd("hook.poststop", h.Poststop)
	}
	if l := s.Linux; l != nil {
		seenD := map[string]bool{}
		for _, d := range l.Devices {
			if seenD[d.Path] {
				problems = append(problems, "duplicate device "+d.Path)
			}
			seenD[d.Path] = true
			cont[Item{Kind: "device", Key: d.Path}] = int(d.Major)
		}
		if l.CgroupsPath != "" {
			cont[Item{Kind: "cgroupspath"}] = pv(strings.TrimPrefix(l.CgroupsPath, "/cg/"))
		}
		if l.IntelRdt != nil {
			cont[Item{Kind: "rdt"}] = pv(l.IntelRdt.ClosID)
		}
		if r := l.Resources; r != nil {
			if m := r.Memory; m != nil {
				if m.Limit != nil {
					cont[Item{Kind: "mem.limit"}] = int(*m.Limit)
				}
			}
			if c := r.CPU; c != nil {
				if c.Shares != nil {
					cont[Item{Kind: "cpu.shares"}] = int(*c.Shares)
				}
				if c.Quota != nil {
					cont[Item{Kind: "cpu.quota"}] = int(*c.Quota)
				}
				if c.Period != nil {
					cont[Item{Kind: "cpu.period"}] = int(*c.Period)
				}
				if c.RealtimeRuntime != nil {
					cont[Item{Kind: "cpu.rtruntime"}] = int(*c.RealtimeRuntime)
				}
				if c.RealtimePeriod != nil {
					cont[Item{Kind: "cpu.rtperiod"}] = int(*c.RealtimePeriod)
				}
				if c.Cpus != "" {
					cont[Item{Kind: "cpu.cpus"}] = pv(c.Cpus)
				}
				if c.Mems != "" {
					cont[Item{Kind: "cpu.mems"}] = pv(c.Mems)
				}
			}
			for _, h := range r.HugepageLimits {
				cont[Item{Kind: "hugepage", Key: h.Pagesize}] = int(h.Limit)
			}
			for k, v := range r.Unified {
				cont[Item{Kind: "unified", Key: k}] = pv(v)
			}
			if r.Pids != nil {
				cont[Item{Kind: "pids"}] = int(r.Pids.Limit)
			}
			if r.BlockIO != nil && r.BlockIO.Weight != nil {
				cont[Item{Kind: "blockio"}] = int(*r.BlockIO.Weight)
			}
		}
	}
	return cont, lists, problems
}
