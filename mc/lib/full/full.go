// Package full runs the real runtime adaptation and real stub plugins over
// real unix sockets (real multiplexer, real ttrpc) inside one process, with
// an optional fault-injecting connection wrapper on a plugin's trunk.
package full

import (
	"context"
	"fmt"
	"io"
	"net"
	"os"
	"path/filepath"
	"sync"
	"time"

	"github.com/containerd/nri/pkg/adaptation"
	"github.com/containerd/nri/pkg/api"
	"github.com/containerd/nri/pkg/stub"
	"github.com/sirupsen/logrus"
)

func init() {
	if os.Getenv("VERIF_LOG") == "" {
		logrus.SetOutput(io.Discard)
		logrus.SetLevel(logrus.ErrorLevel)
	}
}

// Runtime is the runtime side.
type Runtime struct {
	R    *adaptation.Adaptation
	Dir  string
	Sock string

	mu       sync.Mutex
	Pods     []*api.PodSandbox
	Ctrs     []*api.Container
	Unsol    [][]*api.ContainerUpdate // unsolicited update lists seen by the update callback
	SyncUps  [][]*api.ContainerUpdate // updates returned by sync callbacks
	SyncErrs []error
	OnUpdate func([]*api.ContainerUpdate) ([]*api.ContainerUpdate, error)
	// OnUpdateCtx, when set, additionally receives the context of each update callback
	OnUpdateCtx func(context.Context)
	// OnSync, when set, wraps the snapshot taking (used to insert delays / points)
	OnSync func(take func() ([]*api.PodSandbox, []*api.Container)) ([]*api.PodSandbox, []*api.Container)
}

var dirSeq int
var dirMu sync.Mutex

// NewRuntime creates a runtime with its socket in a fresh short directory.
func NewRuntime(opts ...adaptation.Option) (*Runtime, error) {
	dirMu.Lock()
	dirSeq++
	n := dirSeq
	dirMu.Unlock()
	base := os.Getenv("VERIF_SCRATCH")
	if base == "" {
		base = "/var/tmp"
	}
	dir, err := os.MkdirTemp(base, fmt.Sprintf("nrifs%d-", n))
	if err != nil {
		return nil, err
	}
	rt := &Runtime{Dir: dir, Sock: filepath.Join(dir, "nri.sock")}
	all := append([]adaptation.Option{
		adaptation.WithSocketPath(rt.Sock),
		adaptation.WithPluginPath(filepath.Join(dir, "plugins")),
		adaptation.WithPluginConfigPath(filepath.Join(dir, "conf.d")),
	}, opts...)
	r, err := adaptation.New("verif-runtime", "1.0", rt.syncFn, rt.updateFn, all...)
	if err != nil {
		os.RemoveAll(dir)
		return nil, err
	}
	rt.R = r
	return rt, nil
}

func (rt *Runtime) syncFn(ctx context.Context, cb adaptation.SyncCB) error {
	take := func() ([]*api.PodSandbox, []*api.Container) {
		rt.mu.Lock()
		defer rt.mu.Unlock()
		return append([]*api.PodSandbox(nil), rt.Pods...), append([]*api.Container(nil), rt.Ctrs...)
	}
	var pods []*api.PodSandbox
	var ctrs []*api.Container
	if rt.OnSync != nil {
		pods, ctrs = rt.OnSync(take)
	} else {
		pods, ctrs = take()
	}
	ups, err := cb(ctx, pods, ctrs)
	rt.mu.Lock()
	rt.SyncUps = append(rt.SyncUps, ups)
	rt.SyncErrs = append(rt.SyncErrs, err)
	rt.mu.Unlock()
	return err
}

func (rt *Runtime) updateFn(ctx context.Context, us []*api.ContainerUpdate) ([]*api.ContainerUpdate, error) {
	rt.mu.Lock()
	rt.Unsol = append(rt.Unsol, us)
	f := rt.OnUpdate
	fc := rt.OnUpdateCtx
	rt.mu.Unlock()
	if fc != nil {
		fc(ctx)
	}
	if f != nil {
		return f(us)
	}
	return nil, nil
}

// AddContainer adds a container to the runtime's own store.
func (rt *Runtime) AddContainer(c *api.Container) {
	rt.mu.Lock()
	rt.Ctrs = append(rt.Ctrs, c)
	rt.mu.Unlock()
}

func (rt *Runtime) Start() error { return rt.R.Start() }

// wrapListener wraps every accepted connection.
type wrapListener struct {
	net.Listener
	wrap func(net.Conn) net.Conn
}

func (l *wrapListener) Accept() (net.Conn, error) {
	c, err := l.Listener.Accept()
	if err != nil {
		return nil, err
	}
	return l.wrap(c), nil
}

// StartWrapped serves the runtime's socket with the real accept loop on a
// harness-owned listener whose accepted connections are wrapped (fault
// injection on the runtime's end of a plugin's trunk). No pre-installed plugins.
func (rt *Runtime) StartWrapped(wrap func(net.Conn) net.Conn) error {
	l, err := net.Listen("unix", rt.Sock)
	if err != nil {
		return err
	}
	adaptation.VerifAcceptLoop(rt.R, &wrapListener{Listener: l, wrap: wrap})
	return nil
}

// Close stops the runtime and removes its directory.
func (rt *Runtime) Close() {
	rt.R.Stop()
	os.RemoveAll(rt.Dir)
}

// Call is one handler invocation recorded by a plugin.
type Call struct {
	Method string
	Pod    string
	Ctr    string
}

// Plugin is a real stub-based plugin implementing every handler interface;
// the subscription is narrowed by Mask at configuration time.
type Plugin struct {
	Name, Idx string
	Mask      api.EventMask
	Config    string // configuration received

	CreateFn func(*api.PodSandbox, *api.Container) (*api.ContainerAdjustment, []*api.ContainerUpdate, error)
	UpdateFn func(*api.PodSandbox, *api.Container, *api.LinuxResources) ([]*api.ContainerUpdate, error)
	StopFn   func(*api.PodSandbox, *api.Container) ([]*api.ContainerUpdate, error)
	EventFn  func(method string, pod *api.PodSandbox, ctr *api.Container) error
	SyncFn   func([]*api.PodSandbox, []*api.Container) ([]*api.ContainerUpdate, error)
	ConfFn   func(config, runtime, version string) (api.EventMask, error)

	mu       sync.Mutex
	Log      []Call
	Syncs    [][2][]string // per Synchronize call: pod ids, container ids
	Closed   int
	synced   chan struct{}
	syncOnce sync.Once
	Stub     stub.Stub
	Conn     net.Conn
}

func NewPlugin(idx, name string) *Plugin {
	return &Plugin{Name: name, Idx: idx, synced: make(chan struct{})}
}

func (p *Plugin) rec(m string, pod *api.PodSandbox, ctr *api.Container) {
	p.mu.Lock()
	p.Log = append(p.Log, Call{m, pod.GetId(), ctr.GetId()})
	p.mu.Unlock()
}

// Calls returns a copy of the invocation log.
func (p *Plugin) Calls() []Call {
	p.mu.Lock()
	defer p.mu.Unlock()
	return append([]Call(nil), p.Log...)
}

func (p *Plugin) Configure(_ context.Context, config, runtime, version string) (api.EventMask, error) {
	p.mu.Lock()
	p.Config = config
	p.mu.Unlock()
	if p.ConfFn != nil {
		return p.ConfFn(config, runtime, version)
	}
	return p.Mask, nil
}

func (p *Plugin) Synchronize(_ context.Context, pods []*api.PodSandbox, ctrs []*api.Container) ([]*api.ContainerUpdate, error) {
	var pi, ci []string
	for _, x := range pods {
		pi = append(pi, x.GetId())
	}
	for _, x := range ctrs {
		ci = append(ci, x.GetId())
	}
	p.mu.Lock()
	p.Syncs = append(p.Syncs, [2][]string{pi, ci})
	p.mu.Unlock()
	defer p.syncOnce.Do(func() { close(p.synced) })
	if p.SyncFn != nil {
		return p.SyncFn(pods, ctrs)
	}
	return nil, nil
}

func (p *Plugin) Shutdown(context.Context) { p.rec("Shutdown", nil, nil) }

func (p *Plugin) ev(m string, pod *api.PodSandbox, ctr *api.Container) error {
	p.rec(m, pod, ctr)
	if p.EventFn != nil {
		return p.EventFn(m, pod, ctr)
	}
	return nil
}

func (p *Plugin) RunPodSandbox(_ context.Context, pod *api.PodSandbox) error {
	return p.ev("RunPodSandbox", pod, nil)
}
func (p *Plugin) UpdatePodSandbox(_ context.Context, pod *api.PodSandbox, _, _ *api.LinuxResources) error {
	return p.ev("UpdatePodSandbox", pod, nil)
}
func (p *Plugin) PostUpdatePodSandbox(_ context.Context, pod *api.PodSandbox) error {
	return p.ev("PostUpdatePodSandbox", pod, nil)
}
func (p *Plugin) StopPodSandbox(_ context.Context, pod *api.PodSandbox) error {
	return p.ev("StopPodSandbox", pod, nil)
}
func (p *Plugin) RemovePodSandbox(_ context.Context, pod *api.PodSandbox) error {
	return p.ev("RemovePodSandbox", pod, nil)
}
func (p *Plugin) CreateContainer(_ context.Context, pod *api.PodSandbox, ctr *api.Container) (*api.ContainerAdjustment, []*api.ContainerUpdate, error) {
	p.rec("CreateContainer", pod, ctr)
	if p.CreateFn != nil {
		return p.CreateFn(pod, ctr)
	}
	return nil, nil, nil
}
func (p *Plugin) PostCreateContainer(_ context.Context, pod *api.PodSandbox, ctr *api.Container) error {
	return p.ev("PostCreateContainer", pod, ctr)
}
func (p *Plugin) StartContainer(_ context.Context, pod *api.PodSandbox, ctr *api.Container) error {
	return p.ev("StartContainer", pod, ctr)
}
func (p *Plugin) PostStartContainer(_ context.Context, pod *api.PodSandbox, ctr *api.Container) error {
	return p.ev("PostStartContainer", pod, ctr)
}
func (p *Plugin) UpdateContainer(_ context.Context, pod *api.PodSandbox, ctr *api.Container, r *api.LinuxResources) ([]*api.ContainerUpdate, error) {
	p.rec("UpdateContainer", pod, ctr)
	if p.UpdateFn != nil {
		return p.UpdateFn(pod, ctr, r)
	}
	return nil, nil
}
func (p *Plugin) PostUpdateContainer(_ context.Context, pod *api.PodSandbox, ctr *api.Container) error {
	return p.ev("PostUpdateContainer", pod, ctr)
}
func (p *Plugin) StopContainer(_ context.Context, pod *api.PodSandbox, ctr *api.Container) ([]*api.ContainerUpdate, error) {
	p.rec("StopContainer", pod, ctr)
	if p.StopFn != nil {
		return p.StopFn(pod, ctr)
	}
	return nil, nil
}
func (p *Plugin) RemoveContainer(_ context.Context, pod *api.PodSandbox, ctr *api.Container) error {
	return p.ev("RemoveContainer", pod, ctr)
}

// Start creates the stub and starts it against the runtime. wrap, if not
// nil, wraps the dialed connection (fault injection).
func (p *Plugin) Start(rt *Runtime, wrap func(net.Conn) net.Conn, extra ...stub.Option) error {
	c, err := net.Dial("unix", rt.Sock)
	if err != nil {
		return err
	}
	if wrap != nil {
		c = wrap(c)
	}
	return p.StartOn(c, extra...)
}

// StartOn starts the stub on an existing connection.
func (p *Plugin) StartOn(c net.Conn, extra ...stub.Option) error {
	p.Conn = c
	opts := append([]stub.Option{
		stub.WithPluginName(p.Name), stub.WithPluginIdx(p.Idx), stub.WithConnection(c),
		stub.WithOnClose(func() {
			p.mu.Lock()
			p.Closed++
			p.mu.Unlock()
		}),
	}, extra...)
	st, err := stub.New(p, opts...)
	if err != nil {
		c.Close()
		return err
	}
	p.Stub = st
	return st.Start(context.Background())
}

// StartDial creates the stub with the runtime's socket path (no fixed
// connection), so that the same stub can be started again with Restart.
func (p *Plugin) StartDial(rt *Runtime, extra ...stub.Option) error {
	opts := append([]stub.Option{
		stub.WithPluginName(p.Name), stub.WithPluginIdx(p.Idx), stub.WithSocketPath(rt.Sock),
		stub.WithOnClose(func() {
			p.mu.Lock()
			p.Closed++
			p.mu.Unlock()
		}),
	}, extra...)
	st, err := stub.New(p, opts...)
	if err != nil {
		return err
	}
	p.Stub = st
	return st.Start(context.Background())
}

// Prepare creates the stub (socket path of the runtime, no fixed connection) without starting it;
// Restart starts it.
func (p *Plugin) Prepare(rt *Runtime, extra ...stub.Option) error {
	opts := append([]stub.Option{
		stub.WithPluginName(p.Name), stub.WithPluginIdx(p.Idx), stub.WithSocketPath(rt.Sock),
		stub.WithOnClose(func() {
			p.mu.Lock()
			p.Closed++
			p.mu.Unlock()
		}),
	}, extra...)
	st, err := stub.New(p, opts...)
	if err != nil {
		return err
	}
	p.Stub = st
	return nil
}

// Restart starts the same stub again (on a fresh connection).
func (p *Plugin) Restart() error { return p.Stub.Start(context.Background()) }

// WaitSynced waits until the plugin's Synchronize handler ran.
func (p *Plugin) WaitSynced(d time.Duration) bool {
	select {
	case <-p.synced:
		return true
	case <-time.After(d):
		return false
	}
}

// WaitActive waits until the runtime lists the plugin as active.
func (p *Plugin) WaitActive(rt *Runtime, d time.Duration) bool {
	deadline := time.Now().Add(d)
	want := p.Idx + "-" + p.Name
	for {
		for _, n := range adaptation.VerifActiveNames(rt.R) {
			if n == want {
				return true
			}
		}
		if !time.Now().Before(deadline) {
			return false
		}
		time.Sleep(time.Millisecond)
	}
}

// SyncCount returns how often the Synchronize handler ran.
func (p *Plugin) SyncCount() int {
	p.mu.Lock()
	defer p.mu.Unlock()
	return len(p.Syncs)
}

// SyncIDs returns the pod and container ids of the i-th Synchronize call.
func (p *Plugin) SyncIDs(i int) ([]string, []string) {
	p.mu.Lock()
	defer p.mu.Unlock()
	return p.Syncs[i][0], p.Syncs[i][1]
}

func (p *Plugin) ClosedCount() int {
	p.mu.Lock()
	defer p.mu.Unlock()
	return p.Closed
}

// ---- fault injecting connection -------------------------------------

// FaultConn wraps a connection, counts bytes per direction and cuts the
// connection (both directions) after a configured number of bytes.
type FaultConn struct {
	net.Conn
	mu        sync.Mutex
	rn, wn    int64
	CutRead   int64 // cut when this many bytes have been read (peer->us); <0 = never
	CutWrite  int64 // cut when this many bytes have been written (us->peer); <0 = never
	Blackhole bool  // after the cut offset: swallow instead of closing
	Armed     bool
	cut       bool
	CutC      chan struct{}
}

func NewFaultConn(c net.Conn) *FaultConn {
	return &FaultConn{Conn: c, CutRead: -1, CutWrite: -1, CutC: make(chan struct{})}
}

// Arm starts counting from now and cuts after the given offsets.
func (f *FaultConn) Arm(cutRead, cutWrite int64) {
	f.mu.Lock()
	f.rn, f.wn = 0, 0
	f.CutRead, f.CutWrite = cutRead, cutWrite
	f.Armed = true
	f.mu.Unlock()
}

// Counts returns the bytes seen since Arm.
func (f *FaultConn) Counts() (int64, int64) {
	f.mu.Lock()
	defer f.mu.Unlock()
	return f.rn, f.wn
}

func (f *FaultConn) doCut() {
	if !f.cut {
		f.cut = true
		close(f.CutC)
		if !f.Blackhole {
			f.Conn.Close()
		}
	}
}

func (f *FaultConn) WasCut() bool {
	f.mu.Lock()
	defer f.mu.Unlock()
	return f.cut
}

func (f *FaultConn) Read(b []byte) (int, error) {
	f.mu.Lock()
	if f.cut && !f.Blackhole {
		f.mu.Unlock()
		return 0, net.ErrClosed
	}
	lim := int64(-1)
	if f.Armed && f.CutRead >= 0 {
		lim = f.CutRead - f.rn
		if lim <= 0 {
			f.doCut()
			f.mu.Unlock()
			if f.Blackhole {
				select {} // never returns: the peer's bytes are swallowed
			}
			return 0, net.ErrClosed
		}
	}
	f.mu.Unlock()
	if lim > 0 && int64(len(b)) > lim {
		b = b[:lim]
	}
	n, err := f.Conn.Read(b)
	f.mu.Lock()
	f.rn += int64(n)
	f.mu.Unlock()
	return n, err
}

func (f *FaultConn) Write(b []byte) (int, error) {
	f.mu.Lock()
	if f.cut {
		bh := f.Blackhole
		f.mu.Unlock()
		if bh {
			return len(b), nil
		}
		return 0, net.ErrClosed
	}
	if f.Armed && f.CutWrite >= 0 {
		lim := f.CutWrite - f.wn
		if int64(len(b)) >= lim {
			if lim < 0 {
				lim = 0
			}
			f.mu.Unlock()
			n, _ := f.Conn.Write(b[:lim])
			f.mu.Lock()
			f.wn += int64(n)
			f.doCut()
			bh := f.Blackhole
			f.mu.Unlock()
			if bh {
				return len(b), nil
			}
			return n, net.ErrClosed
		}
	}
	f.mu.Unlock()
	n, err := f.Conn.Write(b)
	f.mu.Lock()
	f.wn += int64(n)
	f.mu.Unlock()
	return n, err
}
