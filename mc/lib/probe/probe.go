// Package probe turns the harness binary itself into a pre-installed NRI
// plugin: when the binary is started under a name of the form
// "NN-<mode>-<tag>" (as the runtime does for executables in its plugin
// directory) it behaves as a probe plugin that reports its environment,
// its inherited file descriptors and the configuration it receives, and
// then behaves according to <mode>.
package probe

import (
	"context"
	"encoding/json"
	"fmt"
	"os"
	"path/filepath"
	"regexp"
	"sort"
	"sync"
	"syscall"
	"time"

	"github.com/containerd/nri/pkg/api"
	"github.com/containerd/nri/pkg/stub"
)

// Report is what a probe writes to <plugin dir>/../reports/<file name>.<pid>.json
type Report struct {
	File    string            `json:"file"`
	Pid     int               `json:"pid"`
	Env     []string          `json:"env"`
	Fds     map[string]string `json:"fds"` // fd number -> link target, as inherited
	Config  *string           `json:"config"`
	Synced  bool              `json:"synced"`
	Events  int               `json:"events"`
	Started string            `json:"started"`
}

var nameRe = regexp.MustCompile(`^[0-9][0-9]-([a-z]+)-`)

var inherited map[string]string

func init() {
	// as early as possible, and with raw system calls only (os.Open would make the Go
	// runtime create its own epoll/eventfd descriptors): which descriptors did we inherit?
	inherited = map[string]string{}
	fd, err := syscall.Open("/proc/self/fd", syscall.O_RDONLY|syscall.O_DIRECTORY|syscall.O_CLOEXEC, 0)
	if err != nil {
		return
	}
	defer syscall.Close(fd)
	self := fmt.Sprint(fd)
	buf := make([]byte, 8192)
	for {
		n, err := syscall.ReadDirent(fd, buf)
		if err != nil || n <= 0 {
			break
		}
		var names []string
		_, _, names = syscall.ParseDirent(buf[:n], -1, names)
		for _, nm := range names {
			if nm == self {
				continue
			}
			// a descriptor inherited across exec necessarily has close-on-exec clear; descriptors
			// with the flag set were opened by this process itself (Go runtime: epoll, eventfd)
			var n uintptr
			fmt.Sscan(nm, &n)
			if fl, _, e := syscall.Syscall(syscall.SYS_FCNTL, n, syscall.F_GETFD, 0); e == 0 && fl&syscall.FD_CLOEXEC != 0 {
				continue
			}
			lb := make([]byte, 512)
			ln, err := syscall.Readlink("/proc/self/fd/"+nm, lb)
			if err != nil {
				continue
			}
			inherited[nm] = string(lb[:ln])
		}
	}
}

type plugin struct {
	mu   sync.Mutex
	rep  *Report
	path string
	mode string
	dir  string
	st   stub.Stub
}

func (p *plugin) save() {
	b, _ := json.MarshalIndent(p.rep, "", " ")
	tmp := p.path + ".tmp"
	os.WriteFile(tmp, b, 0o644)
	os.Rename(tmp, p.path)
}

func (p *plugin) Configure(_ context.Context, config, runtime, version string) (api.EventMask, error) {
	p.mu.Lock()
	defer p.mu.Unlock()
	p.rep.Config = &config
	p.save()
	return 0, nil
}

func (p *plugin) Synchronize(_ context.Context, pods []*api.PodSandbox, ctrs []*api.Container) ([]*api.ContainerUpdate, error) {
	p.mu.Lock()
	defer p.mu.Unlock()
	if p.mode == "syncfail" {
		return nil, fmt.Errorf("probe refuses to synchronize")
	}
	if p.mode == "synchang" {
		p.mu.Unlock()
		linger() // never answers the synchronization request
	}
	p.rep.Synced = true
	p.save()
	if p.mode == "dielater" {
		go func() {
			time.Sleep(60 * time.Millisecond)
			os.Exit(3)
		}()
	}
	return nil, nil
}

func (p *plugin) StartContainer(_ context.Context, pod *api.PodSandbox, ctr *api.Container) error {
	p.mu.Lock()
	p.rep.Events++
	p.save()
	p.mu.Unlock()
	f, err := os.OpenFile(filepath.Join(p.dir, "order.log"), os.O_APPEND|os.O_CREATE|os.O_WRONLY, 0o644)
	if err == nil {
		f.WriteString(p.rep.File + "\n")
		f.Close()
	}
	if p.mode == "hang" {
		linger()
	}
	if p.mode == "closeidle" {
		p.mu.Lock()
		n := p.rep.Events
		p.mu.Unlock()
		if n == 2 {
			// after the last event: drop the connection while the runtime is idle, stay alive
			go func() {
				time.Sleep(20 * time.Millisecond)
				p.st.Stop()
			}()
		}
	}
	return nil
}

// MaybeRun runs the probe and never returns if the binary was started as a
// pre-installed plugin; otherwise it returns at once.
func MaybeRun() {
	base := filepath.Base(os.Args[0])
	m := nameRe.FindStringSubmatch(base)
	if m == nil {
		return
	}
	exe := os.Args[0]
	if !filepath.IsAbs(exe) {
		if abs, err := filepath.Abs(exe); err == nil {
			exe = abs
		}
	}
	dir := filepath.Join(filepath.Dir(filepath.Dir(exe)), "reports")
	os.MkdirAll(dir, 0o755)
	env := os.Environ()
	sort.Strings(env)
	p := &plugin{mode: m[1], dir: dir}
	p.rep = &Report{File: base, Pid: os.Getpid(), Env: env, Fds: inherited, Started: time.Now().Format(time.RFC3339Nano)}
	p.path = filepath.Join(dir, fmt.Sprintf("%s.%d.json", base, os.Getpid()))
	p.save()
	switch p.mode {
	case "exit":
		os.Exit(1)
	case "noreg":
		linger()
	}
	// the probe never exits on its own when its connection goes away: killing it is the runtime's job
	st, err := stub.New(p, stub.WithOnClose(func() {}))
	if err != nil {
		p.rep.Started = "stub.New failed: " + err.Error()
		p.save()
		os.Exit(2)
	}
	p.st = st
	st.Run(context.Background())
	linger()
}

// linger keeps the process alive without tripping the Go runtime's deadlock detector.
func linger() {
	for {
		time.Sleep(time.Hour)
	}
}
