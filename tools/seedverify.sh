#!/bin/bash
# usage: seedverify.sh <seed-src-dir> <name>       e.g. seedverify.sh /tmp/seed/C01/a C01-a
# Confirms a seeded change in a scratch worktree of /repo's HEAD:
#   patch applies; tree builds; baseline passes with the change; demo fails with it and passes without it.
# On success stores /verif/seeded/<name>/{patch.diff,demo/,meta.json}.
export GOFLAGS=-mod=mod GOPROXY=off GOSUMDB=off GOTOOLCHAIN=local
SRC=$1; NAME=$2
WT=/tmp/sv/$NAME
rm -rf "$WT"; git -C /repo worktree prune
git -C /repo worktree add --detach "$WT" HEAD >/dev/null 2>&1 || { echo "$NAME: cannot create worktree"; exit 2; }
cleanup() { git -C /repo worktree remove --force "$WT" >/dev/null 2>&1; }
trap cleanup EXIT
cd "$WT"
if ! git apply --check "$SRC/patch.diff" 2>/dev/null; then
  git apply -3 "$SRC/patch.diff" >/dev/null 2>&1 || { echo "$NAME: PATCH DOES NOT APPLY to current HEAD"; exit 3; }
  git reset -q
else
  git apply "$SRC/patch.diff"
fi
if git diff --name-only | grep -q '_test.go$'; then echo "$NAME: patch touches test files"; exit 3; fi
git diff > /tmp/sv/$NAME.patch
# target dir for the demo
TGT=$(grep -oE '(pkg|plugins)/[A-Za-z0-9_/-]+' "$SRC/demo/README.txt" | sed 's#/$##' | while read d; do [ -d "$WT/$d" ] && echo $d && break; done | head -1)
[ -z "$TGT" ] && TGT=$(dirname $(git diff --name-only | head -1))
[ -n "$SEED_TGT" ] && TGT=$SEED_TGT   # explicit demo directory (README names several)
MOD=.
case $TGT in plugins/*) MOD=$(echo $TGT | cut -d/ -f1-2); esac
rel=${TGT#$MOD/}; [ "$rel" = "$TGT" ] && [ "$MOD" != "." ] && rel=.
[ "$MOD" = "." ] && rel=$TGT
B1=$(/verif/tools/baseline.sh "$WT" 2>&1 | tail -1)
if [ -n "$SEED_DEMO" ]; then cp "$SRC/demo/$SEED_DEMO" "$TGT/zz_seed_demo_test.go"; else cp "$SRC"/demo/*.go "$TGT"/ 2>/dev/null; fi
(cd $MOD && go test -vet=off -count=1 ./$rel/ >/tmp/sv/$NAME.with.log 2>&1); WITH=$?
git apply -R /tmp/sv/$NAME.patch
(cd $MOD && go test -vet=off -count=1 ./$rel/ >/tmp/sv/$NAME.without.log 2>&1); WITHOUT=$?
echo "$NAME: target=$TGT baseline_with_change='$B1' demo_with_change_exit=$WITH demo_without_change_exit=$WITHOUT"
if [ "$B1" = "BASELINE OK" ] && [ $WITH -ne 0 ] && [ $WITHOUT -eq 0 ]; then
  D=/verif/seeded/$NAME; rm -rf $D; mkdir -p $D/demo
  cp /tmp/sv/$NAME.patch $D/patch.diff
  cp "$SRC"/demo/* $D/demo/
  python3 - "$SRC/meta.json" "$D/meta.json" "$TGT" <<'PY'
import json,sys
m=json.load(open(sys.argv[1]))
m['confirmed_by_me']={'scratch_worktree':'git worktree of /repo HEAD (with the fix: commits), removed afterwards',
  'ran':['git apply patch.diff (3-way if needed); regenerated patch.diff against current HEAD',
         'tools/baseline.sh <worktree>  -> BASELINE OK with the change',
         f'cp demo/*.go {sys.argv[3]}/ ; go test -vet=off -count=1 ./{sys.argv[3]}/  -> FAIL with the change, PASS without it']}
json.dump(m,open(sys.argv[2],'w'),indent=1)
PY
  echo "$NAME: STORED"
else
  echo "$NAME: NOT CONFIRMED (see /tmp/sv/$NAME.*.log)"; tail -5 /tmp/sv/$NAME.with.log; tail -5 /tmp/sv/$NAME.without.log
fi
