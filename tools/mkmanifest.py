#!/usr/bin/env python3
"""Generate /verif/MANIFEST.json from the table below (kept in one place so that it stays valid)."""
import json

CHECKS = {
 "C01": dict(level="model_checking", ref="4 C01", technique="bounded-exhaustive enumeration of plugin response sequences on the real Adaptation vs reference model (explicit-state, model bound to code by running every case on it)",
   text="Every response sequence of the bounded alphabet (35 item kinds x 6 channels x all action vectors for up to 3 (quick) / 5 (thorough) plugins, pairs of kinds/keys, multi-target update structures) is executed on the real Adaptation through in-process fake plugins and compared with the reference model refmerge; wherever the model reports a second claimant the real request must fail with a nil response.",
   note="fake plugins at the pluginType seam (no ttrpc); small value alphabet; reference model refmerge written from the statement; concurrency dimension is covered by the C06 schedule scenarios"),
 "C02": dict(level="model_checking", ref="4 C02", technique="same enumeration as C01, complementary oracle (no conflict in the model => request must succeed)",
   text="Same exhaustive case space as C01 including pre-populated update requests / original containers carrying every field; wherever refmerge reports no conflict the real request must succeed.",
   note="as C01; cases whose verdict depends on claims of a dropped ignore-failure update or on one plugin naming an item twice are don't-care"),
 "C03": dict(level="model_checking", ref="4 C03", technique="bounded-exhaustive enumeration; differential oracle: generator(combined reply) vs generator(each plugin's adjustment in turn) plus reference model",
   text="For every conflict-free creation case of the enumeration the combined adjustment is applied to the original container with the project's own generator and compared with applying each plugin's adjustment in turn (literal statement), with the reference model, and with the reply fields the generator ignores.",
   note="OCI spec built from the container by the harness; block I/O / RDT classes resolved by harness resolvers; cgroup device rules of absent devices and empty resource sections are normalised away"),
 "C04": dict(level="model_checking", ref="4 C04", technique="bounded-exhaustive enumeration; fakes deep-copy what they are shown; compared with the reference model's container after plugins 1..k-1",
   text="In every case each fake plugin deep-copies the container (create) or resources (update) it is handed; the copy at every chain position must equal refmerge's state after the earlier plugins.",
   note="as C01"),
 "C05": dict(level="model_checking", ref="4 C05", technique="bounded-exhaustive enumeration of update-bearing responses vs reference model",
   text="All update structures (3 targets incl. the request's own container, up to 2 updates per plugin, every non-empty subset of representative fields, every ignore-failure placement, empty and fully pre-populated update requests, create/update/stop) are run on the real code; reply entries must be one per target with exactly the model's fields, own entry last, self-update during creation fails, dropped ignore-failure updates contribute nothing.",
   note="as C01; relative order of third-party entries and the reply's own ignore-failure flag are not compared"),
 "C13": dict(level="model_checking", ref="4 C13", technique="bounded-exhaustive enumeration of adjustments x base specs x every map iteration order (T-map instrumentation) on the real generator vs reference model refgen",
   text="Every adjustment of the per-family alphabet (nothing/set/remove/remove+set/set+remove over a present and an absent key, all list orders, scalar boundary values, pairs of families, mount-order selections) is applied to a minimal and a populated spec by the real generator under every iteration order of the maps it ranges over; result must equal refgen, leave every unnamed JSON path untouched, keep parents before children in mounts and be identical for all orders.",
   note="map order is owned through build-time instrumentation (go build -overlay); the args marker and env entries without '=' are outside the alphabet"),
}

CHECKS.update({
 "C06": dict(level="model_checking", ref="4 C06", technique="exhaustive enumeration (all 8192 masks, index multisets x registration orders, veto positions, event sequences) + stateless schedule exploration (cooperative scheduler, preemption-bounded DFS) of concurrent runtime callers on the real Adaptation",
   text="(1) every one of the 8192 subscription masks is installed through the real configure step and each of the 13 lifecycle calls is issued: the plugin is invoked iff subscribed, exactly once; every event sequence of length <= 3 against boundary masks; (2) every index sequence over {00,05,10,50,99} up to 3 (4) plugins in every registration order: invocation non-decreasing in index; a handler error at every position vetoes and stops the chain; (3) every interleaving of 2-3 concurrent runtime callers (lock operations and handler entries are scheduling points) within 3 (8) preemptions: exactly once per request in index order, one common order over all plugins, each caller gets the result of its own request, no deadlock.",
   note="plugins are in-process fakes at the pluginType seam; pkg/adaptation is rebuilt with sync routed through the scheduler (go build -overlay); registration timing is explored by the C08 scenario; a free-running pass of the same bodies is included for the race detector"),
 "C10": dict(level="model_checking", ref="4 C10", technique="stateless model checking of the real multiplexer under a cooperative scheduler: deviation-bounded DFS over thread interleavings, select-case choices, map orders and short reads",
   text="pkg/net/multiplex and pkg/net/conn.go are rebuilt with every lock, once, channel operation, select, goroutine start and map range under scheduler control and a frame limit of 16 bytes; five scenarios (1-3 ids, concurrent writers on the same and on different ids, both directions, payload sizes 0..2*max+3, short reads, default and small queue) are explored over every execution within 2 (3) deviations; each reader must receive exactly an order-preserving merge of the whole payloads written to its id and every thread must terminate.",
   note="trunk is an in-memory pipe owned by the harness; the frame limit is shrunk by a build-time constant rewrite; bounds are reported per scenario in the evidence"),
 "C11": dict(level="model_checking", ref="4 C11", technique="stateless model checking of the real multiplexer with faults as explorer choices (trunk cut after every byte count of every write, Close at every scheduling point, queue overflow), deviation-bounded DFS",
   text="Same instrumented build as C10. Scenarios: trunk severed after k bytes of any trunk write (every k, either direction), Mux.Close / conn.Close / listener.Close by 1-3 concurrent closers at every moment of in-flight traffic, queue overflow with a reader that stops; on every execution within the bound each reader's frames are a prefix of what was sent, no thread stays blocked, later Read/Write return errors (EOF after orderly close), nothing panics, Accept hands the connection out once and returns EOF after close.",
   note="as C10; a worker process killed by the Go runtime's unrecoverable out-of-memory (garbage frame length) is attributed to the journalled execution"),
})

CHECKS.update({
 "C07": dict(level="fault_enumeration", ref="4 C07", technique="exhaustive enumeration of answer vectors at the plugin seam (model: sequential veto/drop semantics) + exhaustive enumeration of fault points (every byte offset of request and response, both ends of the trunk) on the full stack",
   text="(1) every vector of answers (ok, 5 handler-error forms incl. status codes Unavailable/DeadlineExceeded, 6 transport-error forms incl. wrapped) of 1-3 plugins x request types x two consecutive requests against a sequential model: transport error => plugin skipped, closed and never called again; handler error => veto, no later plugin, no response. (2) full stack (real stubs, mux, ttrpc over unix sockets): for each request type and victim position the victim's trunk is cut after every byte of the request and of the response, on the plugin's end and on the runtime's end (partial writes), plus black hole, stub stopped before/inside/after the handler, handler hanging past the 150 ms request timeout, deliberate handler error; the request must return within plugins x timeout + 6 s, carry exactly the survivors' contributions, the victim is pruned and never called again, teardown does not hang.",
   note="layer 2 is exhaustive over fault points, not over interleavings (ttrpc goroutines run free); a violation is believed only if it reproduces on re-execution; byte counts are measured per (request type, plugins, victim) and checked for reproducibility"),
 "C09": dict(level="model_checking", ref="4 C09", technique="bounded-exhaustive enumeration of runtime states (counts x size distributions) through the real sender and real receiver joined by a transport seam applying ttrpc's real size rule",
   text="Real plugin.synchronize (+recalcObjsPerSyncMsg) against the real stub.Synchronize/collectSync/deliverSync; the seam computes the exact encoded length of the ttrpc request envelope and rejects like ttrpc (exported OversizedMessageError, real 4 MiB limit) without copying payloads. States: all (pods, containers) in [0..12]^2 x 5 uniform sizes x 2 slice-capacity variants, every size vector over {tiny, 0.6 MiB, 2.1 MiB} for <= 2 pods and <= 5 containers (3/7 thorough), counts up to 3000 x 4 sizes, mixed, handler variants. Oracle: no panic, handler at most once with exactly the supplied objects in order (foreign objects beyond the slice length never transmitted), updates relayed, exchange ends within 4*(objects)+64 messages, failure only if a message of <= 8 objects was rejected, failed plugin closed.",
   note="transport is a seam (lists are copied, objects are not); the full-stack family with real multi-MiB payloads is part of the transport harness (planned)"),
})

CHECKS.update({
 "C08": dict(level="model_checking", ref="4 C08", technique="semi-controlled stateless model checking: the real accept loop and runtime goroutines run under the cooperative scheduler (preemption-bounded DFS), real stub plugins on socket pairs are the synchronous environment",
   text="pkg/adaptation is rebuilt with its locks routed through the scheduler and the accept loop's goroutine turned into a scheduler thread; it runs on a harness listener handing out socket pairs whose other ends are real stubs. Five scenarios (1-2 registering plugins incl. one failing its synchronization / its handshake, 1-2 runtime goroutines creating containers inside sync blocks with bookkeeping in the runtime's store, an unblocked event caller) are explored over every interleaving within 3 (5) preemptions. On every execution: each activated plugin learned of each container exactly once (snapshot xor creation request), no plugin is synchronized or receives events while a block is held, after the last block is released every healthy registration completes (no deadlock), failed plugins get nothing.",
   note="ttrpc/stub goroutines are outside the scheduler; they only react to the controlled thread that calls them, so an execution is a function of the schedule (checked: the default execution twice, every replayed prefix compared); T-sync is limited to pkg/adaptation in this build; deadlock is declared after a 300 ms grace period"),
})

CHECKS.update({
 "C12": dict(level="model_checking", ref="4 C12", technique="bounded-exhaustive input enumeration over all message types (protoreflect-driven) with a differential oracle between the two generated codecs",
   text="For every one of the protocol's message types: the empty message, every value of every single field (integer boundaries incl. negative 32-bit values, empty/multi-byte/long strings, undefined enum values, optional wrappers absent / zero / non-zero, lists, maps, nested messages to depth 2 (3)), every pair of fields over reduced domains, and the all-fields-set instance. Oracle: UnmarshalVT(proto.Marshal(m)) == m, proto.Unmarshal(MarshalVT(m)) == m, both self round trips, SizeVT() == len(MarshalVT()), no panic; equality is proto.Equal (unset vs empty sub-message distinguished).",
   note="input-space exploration: value ranges are covered by boundary alphabets, not proved; invalid UTF-8 excluded"),
 "C14": dict(level="model_checking", ref="4 C14", technique="bounded-exhaustive input enumeration of the pure conversion / copy / constructor / mask functions with round-trip and aliasing oracles",
   text="Resources: 4 baselines x every single and every pair of per-field deviations over 21 fields x {unset, zero, small, extreme}: NRI->OCI->NRI and OCI->NRI->OCI preserve every shared field incl. unset-vs-zero; Copy() is equal and shares no mutable state (every map, slice element and pointer reachable in the copy is mutated by reflection and the original must not change, and vice versa). Mounts, devices (incl. special file-mode bits), hooks, env over empty/non-empty/boundary fields; every optional constructor with value / pointer / wrapper / nil; all 8191 event masks through PrettyString -> ParseEventMask.",
   note="input-space exploration with boundary alphabets; env entries without '=' excluded; comparison is semantic (nil == empty collection, absent == empty sub-message)"),
 "C15": dict(level="model_checking", ref="4 C15", technique="exhaustive configuration enumeration: one generated Go type per subset of the 13 handler interfaces x requested masks x events, on the real stub (plus a full-stack sample)",
   text="Quick: the 586 subsets of size <= 3 or >= 11 plus 128 mixed ones, thorough: all 8191, each with and without a Configure handler. (1) Configure through the real stub with masks {0, S, all, S minus/plus each bit, every single bit, invalid bits, 0 again} (thorough: every mask 0..8191) on one long-lived stub per type: subscribed mask must be S, or the requested subset, or an error. (2) every event through the PluginService methods with distinctive pod/container/resources, handlers succeeding and failing: exactly the right handler, once, with exactly those arguments; adjustment/updates/error returned unchanged. (3) ~150 (600) types through a real connection to a real runtime: the events delivered equal S.",
   note="types are generated at check time (gen.py) and compiled into the harness; Configure is reached through an export wrapper supplying the channel Start normally creates"),
})

CHECKS.update({
 "C17": dict(level="fault_enumeration", ref="4 C17", technique="exhaustive enumeration of registration inputs (index/name strings, event masks), of stall vectors and of socket configurations against the real accept loop / configure step",
   text="(1) every index string of length 0-3 over {0,5,9,a,-,space,/,a two-byte non-ASCII digit} x names {empty, a, a-b, 200 chars} registered by a raw protocol plugin (real mux + ttrpc) in batches followed by a well-formed plugin: synchronized and served events iff name non-empty and index is two ASCII digits; the batch never blocks the later plugin. (2) masks answered to the real configure step: all 8192 valid masks, every single undefined bit 13..31 on boundary masks, all pairs of undefined bits, all ones (thorough: all 2^32 values): accepted iff no undefined bit, empty mask = everything. (3) every vector of 0-2 misbehaving plugins (never registers, registers after the timeout, never answers Configure, invalid mask, drops after register/configure, bad index, empty name) ahead of a good plugin with 200 ms timeouts: the bad ones get nothing, the good one becomes active and receives events. (4) disabled external connections serve no socket; for umask in {000,002,022,027,077} x 1-3 missing path components every directory NRI creates has no group/other bits.",
   note="(1),(3) run the full stack free-running; horizons are long (seconds against 200 ms timeouts); umask is changed process-wide inside the worker while the socket engine runs alone"),
 "C19": dict(level="model_checking", ref="4 C19", technique="stateless schedule exploration (cooperative scheduler, preemption-bounded DFS) of unsolicited updates against runtime requests on the real Adaptation + exhaustive content enumeration on the full stack",
   text="(1) schedules: threads calling the real plugin.UpdateContainers relay (2-3 plugins) interleaved with create/update/event requests whose handlers are scheduling points; on every interleaving within 3 (8) preemptions the runtime's update callback never overlaps another callback or a handler of a request in progress, is called exactly once per request with the plugin's updates, and each plugin gets its own failed list. (2) content on the full stack (real stub, mux, ttrpc): every update list of length 0-2 over 5 update shapes x ignore-failure flags (+ rotating length-3 lists) x callback results {nil, every subset as failed list, error}: the callback sees exactly the list once, the plugin gets exactly the failed list or the error. (3) a stub never started returns ErrNoService without blocking.",
   note="schedule part: in-process fake plugins at the seam, handler entry and the callback are scheduling points; content part is free-running underneath"),
})

CHECKS.update({
 "C16": dict(level="fault_enumeration", ref="4 C16", technique="exhaustive enumeration of fault points (every byte offset of the handshake, both directions) and of operation histories (all sequences up to length 4/5) on the real stub against a real runtime end, with the asynchronous close notification delivered immediately or held at a build-time gate; reference model of the session state",
   text="(1) the stub's connection is cut after every byte of connect/register/configure/synchronize in either direction (299 offsets), plus unreachable runtime, refused registration, failing configuration: Start returns within the horizon, Wait returns, the close notification fires once iff a session was established, a restart on a fresh connection succeeds and receives events, Stop returns. (2) every sequence of length <= 4 (5) over {Start on a fresh connection, Stop, Wait, peer drops the connection, release one held close notification}, on a fresh stub, in two modes (notification delivered as it comes / held at a gate inserted at the entry of the stub's connection-closed handler until released): every step is checked against a reference model (started, live session, notifications pending/delivered); a late notification of an earlier session must not end a later one; OnClose fires exactly once per ended session.",
   note="free-running underneath (ttrpc goroutines); a call is reported stuck after 6 s against a 300 ms registration timeout; violations are re-executed before they are believed; whether a start that never established a session produces a notification is left open by the statement and not checked"),
})

CHECKS.update({
 "C18": dict(level="fault_enumeration", ref="4 C18", technique="exhaustive enumeration of configurations (plugin directory content x drop-in file pairs) and of process failure-mode vectors with real processes launched by the real runtime",
   text="The harness binary doubles as a probe plugin: hard-linked into a scratch plugin directory as NN-<mode>-<tag> it reports its environment, the descriptors it inherited (those without close-on-exec, read with raw system calls before anything else) and the configuration it receives, then behaves per mode (ok, exits at once, never registers, fails synchronization, dies after synchronization, hangs in a handler; or a non-binary executable). Configurations: drop-in selection {none, idx-name.conf, name.conf, both} for two names; subsets of {two executables, a non-executable, a sub-directory, a third executable}; every failure mode ahead of / behind a healthy plugin and pairs of modes around two healthy plugins (thorough: all subsets, all pairs). Oracle: launched exactly once, exactly the three environment variables, only descriptors 0-3 (3 = socket), configuration = idx-name.conf else name.conf else empty, healthy plugins synchronized and served every event in index order whatever the others do, every launched process is gone (or a zombie) after drop / Stop - the probes never exit on their own when the connection goes away.",
   note="registration / request timeouts 400 ms; zombies are information only; executables whose names do not parse are outside the statement; violations are re-executed before they are believed"),
 "C20": dict(level="model_checking", ref="4 C20", technique="bounded-exhaustive input enumeration of pod annotation sets through the real plugin binaries (built from the working tree, launched as pre-installed plugins) against the reference model refanno",
   text="plugins/device-injector and plugins/ulimit-adjuster are built at check time and launched by one long-lived real Adaptation. For each annotation family (devices, mounts, CDI devices, ulimits) every assignment of {absent, valid A, valid B, malformed} to the keys {container.c, container.c1, container.other, pod scope, bare key} (4^5) for the container names c, c1 (c is its prefix), other (quick: one rotating name per assignment); every pair of families with independent scopes {absent, container, pod, bare} x {valid, malformed}; ulimit type spellings (upper/lower/mixed case, with/without prefix, unknown, empty) x (soft, hard) orders. Oracle: the adjustment equals the field-by-field conversion of the payload under the most specific key naming this container (injector: container > pod > bare; adjuster: container only, names normalised); malformed / unknown type / hard < soft fail the request with no response.",
   note="input-space exploration with representative payloads (two valid shapes and one malformed per family); real processes and sockets underneath"),
})

NOT_YET = {}

def main():
    props = [json.loads(l) for l in open('/verif/properties.jsonl')]
    checks = []
    na = []
    for p in props:
        i = p['id']
        if i in CHECKS:
            c = CHECKS[i]
            checks.append({
                "property_id": i,
                "quick_cmd": f"bin/nricheck {i} --tier quick",
                "thorough_cmd": f"bin/nricheck {i} --tier thorough",
                "evidence_file": f"/verif/evidence/{i}.json",
                "replay_cmd_template": "bin/nricheck replay {path}",
                "engine": "nricheck",
                "level_claimed": {"category": c["level"], "text": c["text"], "design_ref": "DESIGN.md section " + c["ref"]},
                "level_note": c["note"],
                "technique": c["technique"],
            })
        else:
            na.append({"property_id": i, "reason": NOT_YET.get(i, "check under construction in this round (design in DESIGN.md section 4); not claimed until its harness is committed")})
    m = {
        "version": 1,
        "setup_cmd": "bash /verif/tools/setup.sh",
        "hooks": {
            "guard": "verif",
            "enable": "no in-tree hooks: checks instrument a copy of the working tree at build time (bin/instr writes rewritten files + overlay.json, harnesses are built with go build -overlay); the build tag 'verif' is reserved",
            "baseline_off_cmd": "bash /verif/tools/baseline.sh /repo",
            "source_commits": [],
            "add_only": True,
        },
        "engines": [
            {"name": "nricheck", "path": "/verif/mc", "serves_properties": sorted(CHECKS), "kind_free_text": "runner: instrument -> build harness with overlay -> worker processes -> aggregate; harnesses under mc/harness, cooperative scheduler + DFS explorer under mc/vsched, reference models under mc/ref"},
        ],
        "checks": checks,
        "not_applicable": na,
        "notes": "Exit codes of every check: 0 held / only known findings, 1 violation (VIOLATION line + replay file), 2 machinery error. Known findings: /verif/KNOWN_FINDINGS.",
    }
    json.dump(m, open('/verif/MANIFEST.json', 'w'), indent=1)
    print("checks:", len(checks), "not_applicable:", len(na))

main()
