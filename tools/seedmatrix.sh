#!/bin/bash
# Run every stored seeded change and every mutant against the check of the property it targets.
# usage: seedmatrix.sh [tier] [regex on the change's name]   -> one line per change: name property exit first-finding
TIER=${1:-quick}; FILTER=${2:-.}
cd /verif
for d in seeded/C*/; do
  n=$(basename $d); p=${n%%-*}
  echo "seeded/$n" | grep -qE "$FILTER" || continue
  out=$(tools/seedtest.sh /verif/$d/patch.diff $p $TIER 2>&1)
  rc=$(echo "$out" | grep -a -o 'exit=[0-9]*' | head -1)
  f=$(echo "$out" | grep -a -m1 '^finding' | cut -c1-140)
  [ -z "$rc" ] && f=$(echo "$out" | grep -a -m1 'PATCH' | cut -c1-140)
  echo "seeded/$n $p $rc $f"
done
for m in mutants/*.diff; do
  n=$(basename $m .diff)
  echo "mutants/$n" | grep -qE "$FILTER" || continue
  p=$(grep -m1 "^$n " mutants/TARGETS | cut -d' ' -f2)
  [ -z "$p" ] && continue
  out=$(tools/seedtest.sh /verif/$m $p $TIER 2>&1)
  rc=$(echo "$out" | grep -a -o 'exit=[0-9]*' | head -1)
  f=$(echo "$out" | grep -a -m1 '^finding' | cut -c1-140)
  [ -z "$rc" ] && f=$(echo "$out" | grep -a -m1 'PATCH' | cut -c1-140)
  echo "mutants/$n $p $rc $f"
done
