#!/bin/bash
# Run every stored seeded change and every mutant against the check of the property it targets.
# usage: seedmatrix.sh [tier]   -> prints one line per change: name property exit first-finding
TIER=${1:-quick}
cd /verif
for d in seeded/*/; do
  n=$(basename $d); p=${n%%-*}
  out=$(tools/seedtest.sh /verif/$d/patch.diff $p $TIER 2>&1)
  rc=$(echo "$out" | grep -o 'exit=[0-9]*' | head -1)
  f=$(echo "$out" | grep -m1 '^finding' | cut -c1-140)
  echo "seeded/$n $p $rc $f"
done
for m in mutants/*.diff; do
  n=$(basename $m .diff)
  p=$(grep -m1 "^$n " mutants/TARGETS | cut -d' ' -f2)
  [ -z "$p" ] && continue
  out=$(tools/seedtest.sh /verif/$m $p $TIER 2>&1)
  rc=$(echo "$out" | grep -o 'exit=[0-9]*' | head -1)
  f=$(echo "$out" | grep -m1 '^finding' | cut -c1-140)
  echo "mutants/$n $p $rc $f"
done
