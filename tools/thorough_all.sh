#!/bin/bash
# run every check's thorough tier from the tree this script lives in (for `vp run`)
export VERIF_ROOT=$(cd "$(dirname "$0")/.." && pwd)
cd $VERIF_ROOT && bash tools/setup.sh || exit 2
for p in "$@"; do
  s=$(date +%s)
  bin/nricheck $p --tier thorough > /tmp/thorough_$p.log 2>&1; rc=$?
  echo "$p rc=$rc $(( $(date +%s) - s ))s :: $(tail -1 /tmp/thorough_$p.log | cut -c1-250)"
  grep '^finding\|^MACHINERY\|^VIOLATION\|KNOWN' /tmp/thorough_$p.log | head -5 | cut -c1-300
done
