#!/bin/bash
# validate MANIFEST.json and every evidence file against the schemas
python3-vt - <<'PY'
import json,jsonschema,glob,sys
ok=True
try:
    jsonschema.validate(json.load(open('/verif/MANIFEST.json')), json.load(open('/root/.vp/MANIFEST.schema.json')))
except Exception as e:
    ok=False; print('MANIFEST invalid:', str(e)[:300])
es=json.load(open('/root/.vp/EVIDENCE.schema.json'))
for p in sorted(glob.glob('/verif/evidence/*.json')):
    try: jsonschema.validate(json.load(open(p)), es)
    except Exception as e:
        ok=False; print(p,'invalid:', str(e)[:300])
print('valid' if ok else 'INVALID')
sys.exit(0 if ok else 1)
PY
