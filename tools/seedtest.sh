#!/bin/bash
# usage: seedtest.sh <abs patch.diff> <property> [tier] [extra nricheck args]
# Applies a seeded change to a scratch worktree of /repo's HEAD (never to /repo itself), runs the
# property's check against that worktree (VERIF_REPO), and removes the worktree. Prints the verdict.
P=$1; ID=$2; TIER=${3:-quick}; shift 3 2>/dev/null
WT=/tmp/st/$(basename $(dirname "$P"))-$(basename "$P" .diff)-$$
mkdir -p /tmp/st; git -C /repo worktree prune
git -C /repo worktree add --detach "$WT" HEAD >/dev/null 2>&1 || { echo "cannot create worktree"; exit 2; }
trap 'git -C /repo worktree remove --force "$WT" >/dev/null 2>&1' EXIT
cd "$WT"
if ! git apply --check "$P" 2>/dev/null; then
  if ! git apply -3 "$P" >/dev/null 2>&1; then echo "PATCH DOES NOT APPLY: $P"; exit 3; fi
  git reset -q
else
  git apply "$P"
fi
VERIF_OUT=/var/tmp/seedtest-out VERIF_REPO="$WT" /verif/bin/nricheck $ID --tier $TIER "$@" > /var/tmp/seedtest.$$.log 2>&1
rc=$?
echo "== $P on $ID: exit=$rc"
grep -a -m3 "^finding" /var/tmp/seedtest.$$.log | cut -c1-300
tail -2 /var/tmp/seedtest.$$.log | grep -a -v '^VIOLATION' | cut -c1-300
rm -f /var/tmp/seedtest.$$.log
exit $rc
