#!/bin/bash
# usage: seedtest.sh <patch.diff> <property> [tier] [extra nricheck args]
# Applies a seeded change to /repo, runs the property's check, and reverts. Prints the verdict.
P=$1; ID=$2; TIER=${3:-quick}; shift 3 2>/dev/null
cd /repo || exit 2
if [ -n "$(git status --short | grep -v '^??')" ]; then echo "repo not clean"; exit 2; fi
if ! git apply --check "$P" 2>/dev/null; then
  if ! git apply -3 "$P" >/dev/null 2>&1; then echo "PATCH DOES NOT APPLY: $P"; git checkout -- . ; exit 3; fi
  git reset -q
else
  git apply "$P"
fi
/verif/bin/nricheck $ID --tier $TIER "$@" > /var/tmp/seedtest.$$.log 2>&1
rc=$?
git checkout -- .
git status --short | grep -v '^??'
echo "== $P on $ID: exit=$rc"
grep -m3 '^finding' /var/tmp/seedtest.$$.log | cut -c1-300
tail -2 /var/tmp/seedtest.$$.log | cut -c1-300
rm -f /var/tmp/seedtest.$$.log
exit $rc
