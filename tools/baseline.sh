#!/bin/bash
# Run the repository's pinned baseline test suite (guard off) on a tree.
# usage: baseline.sh [repo-dir]   (default /repo); exit 0 iff every module's tests pass
export GOFLAGS=-mod=mod GOPROXY=off GOSUMDB=off GOTOOLCHAIN=local
R=${1:-/repo}
rc=0
for m in . plugins/device-injector plugins/differ plugins/hook-injector plugins/logger plugins/network-device-injector plugins/network-logger plugins/template plugins/ulimit-adjuster plugins/v010-adapter; do
  [ -d "$R/$m" ] || continue
  (cd "$R/$m" && go test -vet=off -count=1 -timeout 25m ./... >/dev/null 2>&1) || { echo "FAIL module $m"; rc=1; }
done
[ $rc = 0 ] && echo "BASELINE OK"
exit $rc
