#!/bin/bash
# Build the verification framework from files on disk only (offline) and warm the Go build cache.
set -e
export GOFLAGS=-mod=mod GOPROXY=off GOSUMDB=off GOTOOLCHAIN=local
V=${VERIF_ROOT:-/verif}
cd $V
mkdir -p bin evidence replays
(cd instr && go build -o $V/bin/instr .)
(cd mc && go build -o $V/bin/nricheck ./cmd/nricheck)
# warm the cache: instrument once and build every harness against the overlay
S=$(mktemp -d /var/tmp/nrisetup-XXXXXX)
trap 'rm -rf "$S"' EXIT
for kind in base mux; do
  $V/bin/instr -repo "${VERIF_REPO:-/repo}" -verif $V/mc -out "$S/$kind" -kind $kind >/dev/null
done
cd mc
for h in harness/*/; do
  h=$(basename "$h")
  kind=base
  [ -f "harness/$h/OVERLAY" ] && kind=$(cat "harness/$h/OVERLAY")
  [ -f "harness/$h/gen.py" ] && (cd "harness/$h" && python3 gen.py quick zz_gen_types.go >/dev/null)
  go build -overlay "$S/$kind/overlay.json" -o "$S/bin-$h" "./harness/$h" || { echo "setup: building harness $h failed" >&2; exit 1; }
done
echo "setup ok"
