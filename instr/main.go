// instr: build-time source instrumenter for containerd/nri.
//
// It reads the current working tree of the repository and writes rewritten
// copies of selected files plus an overlay.json for `go build -overlay`.
// The repository itself is never modified.
//
// usage: instr -repo /repo -verif /verif/mc -out <scratch dir> -kind base|mux
//
// Transformations (see DESIGN.md §3.1): T-sync, T-go, T-chan, T-map, T-const,
// T-export, plus the virtual package pkg/zzverif/vsched.
package main

import (
	"bytes"
	"encoding/json"
	"flag"
	"fmt"
	"go/ast"
	"go/format"
	"go/token"
	"go/types"
	"os"
	"os/exec"
	"path/filepath"
	"sort"
	"strconv"
	"strings"

	"golang.org/x/tools/go/packages"
)

const vschedPath = "github.com/containerd/nri/pkg/zzverif/vsched"

type fileCfg struct {
	sync   bool     // T-sync
	mapr   bool     // T-map
	chans  bool     // T-chan
	goFns  []string // T-go: enclosing function names whose go statements become threads
	consts map[string]string
	gates  map[string]string // function name -> gate name (T-gate)
	// T-gate inside a function: function name -> {channel field, gate name}: the gate goes right before
	// the statement of that function that sends on a channel field of that name (optional hook)
	gateBeforeIf map[string][2]string
}

type report struct {
	Kind     string                    `json:"kind"`
	Files    map[string]map[string]int `json:"files"`
	Warnings []string                  `json:"warnings"`
	Overlay  string                    `json:"overlay"`
}

var rep = report{Files: map[string]map[string]int{}}

func count(file, what string) {
	if rep.Files[file] == nil {
		rep.Files[file] = map[string]int{}
	}
	rep.Files[file][what]++
}

func warn(f string, a ...any) { rep.Warnings = append(rep.Warnings, fmt.Sprintf(f, a...)) }

func main() {
	repo := flag.String("repo", "/repo", "repository root")
	verif := flag.String("verif", "/verif/mc", "verification module root")
	out := flag.String("out", "", "scratch output directory")
	kind := flag.String("kind", "base", "overlay kind: base|mux")
	flag.Parse()
	if *out == "" {
		fmt.Fprintln(os.Stderr, "instr: -out required")
		os.Exit(2)
	}
	rep.Kind = *kind
	if err := os.MkdirAll(*out, 0o755); err != nil {
		fatal(err)
	}

	cfg := map[string]*fileCfg{
		"pkg/adaptation/adaptation.go":           {sync: true, mapr: true, goFns: []string{"acceptPluginConnections"}},
		"pkg/adaptation/plugin.go":               {sync: true, mapr: true},
		"pkg/adaptation/result.go":               {mapr: true},
		"pkg/stub/stub.go":                       {mapr: true, gates: map[string]string{"connClosed": "stub.connClosed"}},
		"pkg/runtime-tools/generate/generate.go": {mapr: true},
		"pkg/net/conn.go":                        {},
		"pkg/net/multiplex/mux.go":               {mapr: true, gateBeforeIf: map[string][2]string{"reader": {"readC", "mux.queue"}}},
		"pkg/net/multiplex/ttrpc.go":             {},
	}
	// T-sync is applied to the multiplexer only in the fully controlled build: in the base build
	// its locks are shared with free-running ttrpc goroutines, which would make the enabledness
	// of a controlled thread depend on their timing
	if *kind == "mux" {
		cfg["pkg/net/conn.go"].sync = true
		cfg["pkg/net/multiplex/mux.go"].sync = true
		cfg["pkg/net/conn.go"].chans = true
		cfg["pkg/net/multiplex/mux.go"].chans = true
		cfg["pkg/net/multiplex/mux.go"].goFns = []string{"newMux"}
		cfg["pkg/net/multiplex/ttrpc.go"].consts = map[string]string{"ttrpcMessageLengthMax": "6"}
		// the default read queue length is shrunk too (a configured length of 8 is then LONGER than the default)
		cfg["pkg/net/multiplex/mux.go"].consts = map[string]string{"readQueueLen": "4"}
	}

	pkgs, err := packages.Load(&packages.Config{
		Mode: packages.NeedName | packages.NeedFiles | packages.NeedCompiledGoFiles | packages.NeedSyntax | packages.NeedTypes | packages.NeedTypesInfo | packages.NeedImports,
		Dir:  *repo,
		Env:  append(os.Environ(), "GOFLAGS=-mod=mod", "GOPROXY=off", "GOSUMDB=off", "GOTOOLCHAIN=local"),
	}, "./pkg/adaptation", "./pkg/stub", "./pkg/runtime-tools/generate", "./pkg/net", "./pkg/net/multiplex")
	if err != nil {
		fatal(err)
	}
	overlay := map[string]string{}
	seen := map[string]bool{}
	for _, p := range pkgs {
		for _, e := range p.Errors {
			fatal(fmt.Errorf("package %s: %v", p.PkgPath, e))
		}
		for i, f := range p.Syntax {
			path := p.CompiledGoFiles[i]
			rel, _ := filepath.Rel(*repo, path)
			c := cfg[rel]
			if c == nil {
				continue
			}
			seen[rel] = true
			in := &inst{fset: p.Fset, info: p.TypesInfo, file: f, rel: rel, cfg: c}
			in.run()
			var buf bytes.Buffer
			if err := format.Node(&buf, p.Fset, f); err != nil {
				fatal(fmt.Errorf("%s: %v", rel, err))
			}
			dst := filepath.Join(*out, strings.ReplaceAll(rel, "/", "__"))
			if err := os.WriteFile(dst, buf.Bytes(), 0o644); err != nil {
				fatal(err)
			}
			overlay[path] = dst
		}
	}
	for rel := range cfg {
		if !seen[rel] {
			fatal(fmt.Errorf("configured file %s not found in the loaded packages", rel))
		}
	}
	// virtual package vsched
	vs, _ := filepath.Glob(filepath.Join(*verif, "vsched", "*.go"))
	for _, f := range vs {
		if strings.HasSuffix(f, "_test.go") {
			continue
		}
		overlay[filepath.Join(*repo, "pkg/zzverif/vsched", filepath.Base(f))] = f
	}
	// export files
	exps, _ := filepath.Glob(filepath.Join(*verif, "export", "*", "*.go"))
	for _, f := range exps {
		pkg := filepath.Base(filepath.Dir(f))
		dir := map[string]string{
			"adaptation": "pkg/adaptation", "stub": "pkg/stub", "multiplex": "pkg/net/multiplex",
			"generate": "pkg/runtime-tools/generate", "net": "pkg/net", "api": "pkg/api",
		}[pkg]
		if dir == "" {
			fatal(fmt.Errorf("unknown export package %s", pkg))
		}
		overlay[filepath.Join(*repo, dir, filepath.Base(f))] = f
	}
	// T-delay: a point in the ttrpc client between sending a request and waiting for its answer at
	// which the harness can hold the calling goroutine (a schedule in which that goroutine is
	// preempted there); 0 by default = unchanged behaviour
	if err := ttrpcDelay(*repo, *out, overlay); err != nil {
		fatal(err)
	}
	ov, _ := json.MarshalIndent(map[string]any{"Replace": overlay}, "", " ")
	ovPath := filepath.Join(*out, "overlay.json")
	if err := os.WriteFile(ovPath, ov, 0o644); err != nil {
		fatal(err)
	}
	rep.Overlay = ovPath
	sort.Strings(rep.Warnings)
	rj, _ := json.MarshalIndent(rep, "", " ")
	os.WriteFile(filepath.Join(*out, "instr_report.json"), rj, 0o644)
	fmt.Println(string(rj))
}

func fatal(err error) {
	fmt.Fprintln(os.Stderr, "instr:", err)
	os.Exit(2)
}

type inst struct {
	fset    *token.FileSet
	info    *types.Info
	file    *ast.File
	rel     string
	cfg     *fileCfg
	needVs  bool
	tmp     int
	curFunc string
}

func (in *inst) run() {
	if in.cfg.consts != nil {
		in.rewriteConsts()
	}
	for _, d := range in.file.Decls {
		fd, ok := d.(*ast.FuncDecl)
		if !ok || fd.Body == nil {
			continue
		}
		in.curFunc = fd.Name.Name
		in.block(fd.Body)
		if g, ok := in.cfg.gates[fd.Name.Name]; ok {
			var recv ast.Expr = ast.NewIdent("nil")
			if fd.Recv != nil && len(fd.Recv.List) == 1 && len(fd.Recv.List[0].Names) == 1 {
				recv = ast.NewIdent(fd.Recv.List[0].Names[0].Name)
			}
			fd.Body.List = append([]ast.Stmt{&ast.ExprStmt{X: vs("Gate", &ast.BasicLit{Kind: token.STRING, Value: strconv.Quote(g)}, recv)}}, fd.Body.List...)
			in.needVs = true
			count(in.rel, "T-gate")
		}
		if g, ok := in.cfg.gateBeforeIf[fd.Name.Name]; ok {
			// the gate goes in front of the statement (of the innermost enclosing block list) that
			// contains a send on a channel field named g[0]; the hook is optional: a tree in which the
			// function no longer has such a send is built without it
			var recv ast.Expr = ast.NewIdent("nil")
			if fd.Recv != nil && len(fd.Recv.List) == 1 && len(fd.Recv.List[0].Names) == 1 {
				recv = ast.NewIdent(fd.Recv.List[0].Names[0].Name)
			}
			hasSend := func(n ast.Node) bool {
				found := false
				ast.Inspect(n, func(x ast.Node) bool {
					if ss, ok := x.(*ast.SendStmt); ok {
						if sel, ok := ss.Chan.(*ast.SelectorExpr); ok && sel.Sel.Name == g[0] {
							found = true
						}
					}
					return !found
				})
				return found
			}
			n := 0
			var visit func(b *ast.BlockStmt)
			visit = func(b *ast.BlockStmt) {
				for i := 0; i < len(b.List); i++ {
					st := b.List[i]
					if !hasSend(st) {
						continue
					}
					// descend while a nested block (for / if body) holds the send on its own
					switch x := st.(type) {
					case *ast.ForStmt:
						visit(x.Body)
						continue
					case *ast.BlockStmt:
						visit(x)
						continue
					}
					gate := &ast.ExprStmt{X: vs("Gate", &ast.BasicLit{Kind: token.STRING, Value: strconv.Quote(g[1])}, recv)}
					b.List = append(b.List[:i], append([]ast.Stmt{gate}, b.List[i:]...)...)
					i++
					n++
				}
			}
			visit(fd.Body)
			if n > 0 {
				in.needVs = true
				count(in.rel, "T-gate")
			} else {
				warn("%s: optional T-gate %s not inserted: %s has no send on a field named %s", in.rel, g[1], fd.Name.Name, g[0])
			}
		}
	}
	if in.cfg.chans {
		in.checkNoStrayChanOps()
	}
	if in.cfg.sync {
		in.rewriteSyncImport()
	}
	if in.needVs {
		in.addImport("vsched", vschedPath)
	}
}

func (in *inst) rewriteConsts() {
	for _, d := range in.file.Decls {
		gd, ok := d.(*ast.GenDecl)
		if !ok || gd.Tok != token.CONST {
			continue
		}
		for _, s := range gd.Specs {
			vs := s.(*ast.ValueSpec)
			for i, n := range vs.Names {
				if v, ok := in.cfg.consts[n.Name]; ok && i < len(vs.Values) {
					vs.Values[i] = &ast.BasicLit{Kind: token.INT, Value: v}
					count(in.rel, "T-const")
				}
			}
		}
	}
}

func (in *inst) rewriteSyncImport() {
	for _, imp := range in.file.Imports {
		if imp.Path.Value == `"sync"` {
			imp.Path.Value = strconv.Quote(vschedPath)
			imp.Name = ast.NewIdent("sync")
			count(in.rel, "T-sync")
		}
	}
}

func (in *inst) addImport(name, path string) {
	spec := &ast.ImportSpec{Name: ast.NewIdent(name), Path: &ast.BasicLit{Kind: token.STRING, Value: strconv.Quote(path)}}
	for _, d := range in.file.Decls {
		if gd, ok := d.(*ast.GenDecl); ok && gd.Tok == token.IMPORT {
			gd.Specs = append(gd.Specs, spec)
			if !gd.Lparen.IsValid() {
				gd.Lparen = gd.Pos()
				gd.Rparen = gd.End()
			}
			in.file.Imports = append(in.file.Imports, spec)
			return
		}
	}
	gd := &ast.GenDecl{Tok: token.IMPORT, Specs: []ast.Spec{spec}}
	in.file.Decls = append([]ast.Decl{gd}, in.file.Decls...)
}

func vs(fn string, args ...ast.Expr) *ast.CallExpr {
	return &ast.CallExpr{Fun: &ast.SelectorExpr{X: ast.NewIdent("vsched"), Sel: ast.NewIdent(fn)}, Args: args}
}

func simpleExpr(e ast.Expr) bool {
	switch x := e.(type) {
	case *ast.Ident:
		return true
	case *ast.SelectorExpr:
		return simpleExpr(x.X)
	case *ast.ParenExpr:
		return simpleExpr(x.X)
	}
	return false
}

// block rewrites the statements of a list in place (and recurses).
func (in *inst) block(b *ast.BlockStmt) {
	if b == nil {
		return
	}
	b.List = in.stmts(b.List)
}

func (in *inst) stmts(list []ast.Stmt) []ast.Stmt {
	var out []ast.Stmt
	for _, s := range list {
		out = append(out, in.stmt(s)...)
	}
	return out
}

// funcLits instruments function literals nested in an expression/statement.
func (in *inst) funcLits(n ast.Node) {
	ast.Inspect(n, func(x ast.Node) bool {
		if fl, ok := x.(*ast.FuncLit); ok {
			in.block(fl.Body)
			return false
		}
		return true
	})
}

func recvOf(e ast.Expr) ast.Expr {
	if u, ok := e.(*ast.UnaryExpr); ok && u.Op == token.ARROW {
		return u.X
	}
	if p, ok := e.(*ast.ParenExpr); ok {
		return recvOf(p.X)
	}
	return nil
}

func (in *inst) stmt(s ast.Stmt) []ast.Stmt {
	switch x := s.(type) {
	case *ast.BlockStmt:
		in.block(x)
	case *ast.IfStmt:
		if x.Init != nil {
			in.funcLits(x.Init)
		}
		in.funcLits(x.Cond)
		in.block(x.Body)
		if x.Else != nil {
			r := in.stmt(x.Else)
			if len(r) == 1 {
				x.Else = r[0]
			}
		}
	case *ast.ForStmt:
		in.block(x.Body)
	case *ast.RangeStmt:
		in.block(x.Body)
		if in.cfg.mapr {
			in.rangeMap(x)
		}
	case *ast.SwitchStmt:
		in.block(x.Body)
	case *ast.TypeSwitchStmt:
		in.block(x.Body)
	case *ast.CaseClause:
		x.Body = in.stmts(x.Body)
	case *ast.CommClause:
		x.Body = in.stmts(x.Body)
	case *ast.LabeledStmt:
		r := in.stmt(x.Stmt)
		if len(r) == 1 {
			x.Stmt = r[0]
		} else {
			warn("%s: labeled statement needing pre-statements left uninstrumented", in.pos(x))
		}
	case *ast.SelectStmt:
		for _, c := range x.Body.List {
			cc := c.(*ast.CommClause)
			cc.Body = in.stmts(cc.Body)
		}
		if in.cfg.chans {
			return []ast.Stmt{in.selectStmt(x)}
		}
	case *ast.GoStmt:
		in.funcLits(x.Call)
		if in.goWanted() {
			if len(x.Call.Args) != 0 {
				warn("%s: go statement with arguments left uninstrumented", in.pos(x))
				break
			}
			var fn ast.Expr
			if fl, ok := x.Call.Fun.(*ast.FuncLit); ok {
				fn = fl
			} else {
				fn = &ast.FuncLit{Type: &ast.FuncType{Params: &ast.FieldList{}}, Body: &ast.BlockStmt{List: []ast.Stmt{&ast.ExprStmt{X: x.Call}}}}
			}
			in.needVs = true
			count(in.rel, "T-go")
			name := &ast.BasicLit{Kind: token.STRING, Value: strconv.Quote(in.curFunc + ".go")}
			return []ast.Stmt{&ast.ExprStmt{X: vs("Go", name, fn)}}
		}
	case *ast.DeferStmt:
		in.funcLits(x.Call)
		if in.cfg.chans {
			if id, ok := x.Call.Fun.(*ast.Ident); ok && id.Name == "close" && len(x.Call.Args) == 1 {
				// defer close(ch)  =>  defer func() { vsched.BeforeClose(ch); close(ch) }()
				ch := x.Call.Args[0]
				if !simpleExpr(ch) {
					fatal(fmt.Errorf("%s: channel expression too complex to instrument", in.pos(s)))
				}
				in.needVs = true
				count(in.rel, "T-chan")
				markHandled(x.Call)
				body := &ast.BlockStmt{List: []ast.Stmt{&ast.ExprStmt{X: vs("BeforeClose", ch)}, &ast.ExprStmt{X: x.Call}}}
				x.Call = &ast.CallExpr{Fun: &ast.FuncLit{Type: &ast.FuncType{Params: &ast.FieldList{}}, Body: body}}
				return []ast.Stmt{x}
			}
		}
	case *ast.ExprStmt:
		in.funcLits(x.X)
		if in.cfg.chans {
			if c := recvOf(x.X); c != nil {
				return in.pre("BeforeRecv", c, s)
			}
			if call, ok := x.X.(*ast.CallExpr); ok {
				if id, ok := call.Fun.(*ast.Ident); ok && id.Name == "close" && len(call.Args) == 1 {
					return in.pre("BeforeClose", call.Args[0], s)
				}
			}
		}
	case *ast.AssignStmt:
		for _, r := range x.Rhs {
			in.funcLits(r)
		}
		if in.cfg.chans && len(x.Rhs) == 1 {
			if c := recvOf(x.Rhs[0]); c != nil {
				return in.pre("BeforeRecv", c, s)
			}
		}
	case *ast.SendStmt:
		in.funcLits(x.Value)
		if in.cfg.chans {
			return in.pre("BeforeSend", x.Chan, s)
		}
	case *ast.ReturnStmt:
		for _, r := range x.Results {
			in.funcLits(r)
		}
	case *ast.DeclStmt:
		in.funcLits(x)
	}
	return []ast.Stmt{s}
}

func (in *inst) goWanted() bool {
	for _, f := range in.cfg.goFns {
		if f == in.curFunc {
			return true
		}
	}
	return false
}

func (in *inst) pos(n ast.Node) string {
	p := in.fset.Position(n.Pos())
	return fmt.Sprintf("%s:%d", in.rel, p.Line)
}

func (in *inst) pre(fn string, ch ast.Expr, s ast.Stmt) []ast.Stmt {
	if !simpleExpr(ch) {
		fatal(fmt.Errorf("%s: channel expression too complex to instrument", in.pos(s)))
	}
	in.needVs = true
	count(in.rel, "T-chan")
	markHandled(s)
	return []ast.Stmt{&ast.ExprStmt{X: vs(fn, ch)}, s}
}

var handled = map[ast.Node]bool{}

func markHandled(n ast.Node) {
	ast.Inspect(n, func(x ast.Node) bool {
		if x != nil {
			handled[x] = true
		}
		if _, ok := x.(*ast.FuncLit); ok {
			return false
		}
		return true
	})
}

// selectStmt turns a select into a switch over vsched.PickCase.
func (in *inst) selectStmt(sel *ast.SelectStmt) ast.Stmt {
	in.needVs = true
	count(in.rel, "T-chan-select")
	hasDefault := false
	var cases []ast.Expr
	sw := &ast.SwitchStmt{Body: &ast.BlockStmt{}}
	idx := 0
	for _, c := range sel.Body.List {
		cc := c.(*ast.CommClause)
		if cc.Comm == nil {
			hasDefault = true
			sw.Body.List = append(sw.Body.List, &ast.CaseClause{Body: cc.Body})
			continue
		}
		var ch ast.Expr
		send := false
		switch cm := cc.Comm.(type) {
		case *ast.ExprStmt:
			ch = recvOf(cm.X)
		case *ast.AssignStmt:
			if len(cm.Rhs) == 1 {
				ch = recvOf(cm.Rhs[0])
			}
		case *ast.SendStmt:
			ch = cm.Chan
			send = true
		}
		if ch == nil || !simpleExpr(ch) {
			fatal(fmt.Errorf("%s: select case too complex to instrument", in.pos(cc)))
		}
		markHandled(cc.Comm)
		fn := "R"
		if send {
			fn = "S"
		}
		cases = append(cases, vs(fn, ch))
		body := append([]ast.Stmt{cc.Comm}, cc.Body...)
		sw.Body.List = append(sw.Body.List, &ast.CaseClause{
			List: []ast.Expr{&ast.BasicLit{Kind: token.INT, Value: strconv.Itoa(idx)}},
			Body: body,
		})
		idx++
	}
	hd := "false"
	if hasDefault {
		hd = "true"
	}
	sw.Tag = vs("PickCase", append([]ast.Expr{ast.NewIdent(hd)}, cases...)...)
	return sw
}

// checkNoStrayChanOps makes sure no channel operation was left outside the
// forms the instrumenter understands.
func (in *inst) checkNoStrayChanOps() {
	ast.Inspect(in.file, func(n ast.Node) bool {
		switch x := n.(type) {
		case *ast.UnaryExpr:
			if x.Op == token.ARROW && !handled[x] {
				fatal(fmt.Errorf("%s: channel receive in a form the instrumenter cannot translate", in.pos(x)))
			}
		case *ast.SendStmt:
			if !handled[x] {
				fatal(fmt.Errorf("%s: channel send in a form the instrumenter cannot translate", in.pos(x)))
			}
		case *ast.RangeStmt:
			if t := in.info.TypeOf(x.X); t != nil {
				if _, ok := t.Underlying().(*types.Chan); ok {
					fatal(fmt.Errorf("%s: range over channel cannot be instrumented", in.pos(x)))
				}
			}
		case *ast.CallExpr:
			if id, ok := x.Fun.(*ast.Ident); ok && id.Name == "close" && !handled[x] {
				fatal(fmt.Errorf("%s: close() in a form the instrumenter cannot translate", in.pos(x)))
			}
		}
		return true
	})
}

// rangeMap rewrites `for k, v := range m` over a map into an iteration over
// vsched.MapOrder(m) that keeps Go's semantics for entries deleted during
// the iteration.
func (in *inst) rangeMap(r *ast.RangeStmt) {
	t := in.info.TypeOf(r.X)
	if t == nil {
		return
	}
	if _, ok := t.Underlying().(*types.Map); !ok {
		return
	}
	if r.Tok != token.DEFINE && !(r.Key == nil && r.Value == nil) {
		warn("%s: map range with '=' left uninstrumented", in.pos(r))
		return
	}
	if !simpleExpr(r.X) {
		warn("%s: map range over a complex expression left uninstrumented", in.pos(r))
		return
	}
	in.tmp++
	kv := ast.NewIdent(fmt.Sprintf("_vk%d", in.tmp))
	okv := ast.NewIdent(fmt.Sprintf("_vok%d", in.tmp))
	var pre []ast.Stmt
	keyName := ast.Expr(kv)
	isBlank := func(e ast.Expr) bool {
		if e == nil {
			return true
		}
		id, ok := e.(*ast.Ident)
		return ok && id.Name == "_"
	}
	if !isBlank(r.Key) {
		pre = append(pre, &ast.AssignStmt{Lhs: []ast.Expr{r.Key}, Tok: token.DEFINE, Rhs: []ast.Expr{kv}})
		keyName = r.Key
	}
	idx := &ast.IndexExpr{X: r.X, Index: keyName}
	cont := &ast.IfStmt{Cond: &ast.UnaryExpr{Op: token.NOT, X: okv}, Body: &ast.BlockStmt{List: []ast.Stmt{&ast.BranchStmt{Tok: token.CONTINUE}}}}
	if !isBlank(r.Value) {
		pre = append(pre, &ast.AssignStmt{Lhs: []ast.Expr{r.Value, okv}, Tok: token.DEFINE, Rhs: []ast.Expr{idx}}, cont)
	} else {
		pre = append(pre, &ast.AssignStmt{Lhs: []ast.Expr{ast.NewIdent("_"), okv}, Tok: token.DEFINE, Rhs: []ast.Expr{idx}}, cont)
	}
	r.Body.List = append(pre, r.Body.List...)
	r.Key = ast.NewIdent("_")
	r.Value = kv
	r.Tok = token.DEFINE
	r.X = vs("MapOrder", r.X)
	in.needVs = true
	count(in.rel, "T-map")
}

func ttrpcDelay(repo, out string, overlay map[string]string) error {
	cmd := exec.Command("go", "list", "-m", "-f", "{{.Dir}}", "github.com/containerd/ttrpc")
	cmd.Dir = repo
	cmd.Env = append(os.Environ(), "GOFLAGS=-mod=mod", "GOPROXY=off", "GOSUMDB=off", "GOTOOLCHAIN=local")
	o, err := cmd.Output()
	if err != nil {
		return fmt.Errorf("locating the ttrpc module: %v", err)
	}
	dir := strings.TrimSpace(string(o))
	src, err := os.ReadFile(filepath.Join(dir, "client.go"))
	if err != nil {
		return err
	}
	anchor := "\tdefer c.deleteStream(s)\n\n\tvar msg *streamMessage\n\tselect {\n\tcase <-ctx.Done():"
	if strings.Count(string(src), anchor) != 1 {
		return fmt.Errorf("T-delay: the dispatch function of ttrpc's client.go does not look as expected (anchor found %d times)", strings.Count(string(src), anchor))
	}
	patched := strings.Replace(string(src), anchor, "\tdefer c.deleteStream(s)\n\n\tverifDispatchDelay()\n\tvar msg *streamMessage\n\tselect {\n\tcase <-ctx.Done():", 1)
	patched += `

// VerifDispatchDelayNS, when positive, holds a calling goroutine for that long between sending
// its request and waiting for the answer (verification overlay; never part of ttrpc). Set it
// before any client is in use.
var VerifDispatchDelayNS int64

func verifDispatchDelay() {
	if d := VerifDispatchDelayNS; d > 0 {
		time.Sleep(time.Duration(d))
	}
}
`
	dst := filepath.Join(out, "ttrpc__client.go")
	if err := os.WriteFile(dst, []byte(patched), 0o644); err != nil {
		return err
	}
	overlay[filepath.Join(dir, "client.go")] = dst
	return nil
}
